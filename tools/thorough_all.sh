#!/bin/bash
# Runs every thorough check once on the unchanged tree; one line per check.
cd "$(dirname "$0")/.." || exit 2
for p in ${*:-C01 C02 C03 C04 C05 C06 C07 C08 C09 C10 C11 C12 C13 C14 C15 C16 C17 C18 C19 C20}; do
  t0=$(date +%s)
  out=$(./check $p --tier thorough 2>&1); rc=$?
  t1=$(date +%s)
  echo "$p thorough rc=$rc $((t1-t0))s :: $(echo "$out" | grep "^$p tier" | cut -c1-160)"
  if [ $rc -ne 0 ]; then echo "$out" | grep -A2 'VIOLATION\|HARNESS' | head -12 | cut -c1-700; fi
done
