# One claim() per property whose check is built and registered.  exec'd by gen_manifest.py.
claim("C20",
      "exhaustive token-sequence sweep + truncation sweep + Hypothesis text, differential "
      "against per-reader detect() in hard-coded documented order; writer outputs re-detected",
      "Generated-input search: all strings of <=4 (thorough <=5) tokens over a 17-token "
      "alphabet, every prefix/suffix/1-deletion of 14 documents, random text, and outputs of "
      "all 8 writers are checked against an explicit oracle (first accepting reader in the "
      "documented order; never raises; own output is detected and read). Finds violations in "
      "the explored space; does not prove absence beyond it.",
      "trusts: each reader's own detect() as the per-format acceptance predicate (that is how "
      "the property is stated); the documented order hard-coded in vf/props/c20.py",
      "DESIGN.md 3/C20")
