# One claim() per property whose check is built and registered.  exec'd by gen_manifest.py.
claim("C20",
      "exhaustive token-sequence sweep + truncation sweep + Hypothesis text, differential "
      "against per-reader detect() in hard-coded documented order; writer outputs re-detected",
      "Generated-input search: all strings of <=4 (thorough <=5) tokens over a 17-token "
      "alphabet, every prefix/suffix/1-deletion of 14 documents, random text, and outputs of "
      "all 8 writers are checked against an explicit oracle (first accepting reader in the "
      "documented order; never raises; own output is detected and read). Finds violations in "
      "the explored space; does not prove absence beyond it.",
      "trusts: each reader's own detect() as the per-format acceptance predicate (that is how "
      "the property is stated); the documented order hard-coded in vf/props/c20.py",
      "DESIGN.md 3/C20")
claim("C18",
      "exhaustive pair sweep over value pools + exhaustive string sweep against a hand-written "
      "size recogniser + Hypothesis values (immutability snapshots, print/re-parse round trip)",
      "Generated-input search with explicit oracles: component-wise reference equality vs ==/hash "
      "for all pairs in pools exhaustive in units/alignments/None-ness (76k pairs) and random "
      "one-component mutations; all 54k (thorough 814k) strings over the 15-symbol alphabet vs a "
      "hand-written recogniser; structural snapshot of the receiver around as_percentage_of / "
      "fit_to_screen; two-decimal printing tolerance and print/parse fixpoint; TTML padding "
      "shorthand order.",
      "trusts the hand-written recogniser and the reference canonical form in vf/props/c18.py; "
      "ASCII digits and non-negative finite magnitudes only",
      "DESIGN.md 3/C18")
claim("C19",
      "Hypothesis caption sets with generated runs; exact Fraction model of t*skew+offset and "
      "reference run-merge; idempotence (metamorphic)",
      "Generated-input search: 10k (thorough 400k) sets per operation with runs of equal "
      "timespans at every position, skews k/64 compared exactly and float skews with 1e-3 us "
      "tolerance, offsets aimed at the 'new start == 0' boundary; survivors, order, node lists "
      "and merged node sequences compared with a reference model; merge applied twice.",
      "trusts the reference model in vf/props/c19.py; integer-microsecond inputs",
      "DESIGN.md 3/C19")
claim("C02",
      "Hypothesis caption sets x 7 writers x options, outputs re-read by independent strict "
      "parsers (SRT/WebVTT/TTML via lxml/SAMI via html.parser/MicroDVD); exhaustive millisecond "
      "sweep; fresh and reused writer objects",
      "Generated-input search: 12k (thorough 300k) sets with boundary-biased instants, runs of "
      "identical timespans, 1-2 languages, SCC-reader float times, writer options and a "
      "previously used writer object; stamps must match strict lexical patterns and denote "
      "floor(t/resolution); SAMI judged by simulating a consumer on the SYNC list; every "
      "millisecond of [0,2min) (thorough [0,2h)) and +-2 s around each hour boundary swept "
      "through SRT, WebVTT and DFXP.",
      "trusts vf/ref/parsers.py; float inputs within 1 us of a unit boundary are not judged; "
      "SAMI runs of identical timespans are not generated (no per-caption reading in SAMI)",
      "DESIGN.md 3/C02")
claim("C01",
      "documents built by independent serialisers from generated timestamp spellings; expected "
      "instants by exact Fraction arithmetic on the spelling; exhaustive MicroDVD-frame / SS:FF "
      "/ offset sweeps; fresh and reused reader objects",
      "Generated-input search: ~34k (thorough >1M) documents over the five grammars with every "
      "lexical form the property lists (hours 0-999 or absent, 0-9 fraction digits, frames, "
      "h/m/s/ms/f offsets, begin+dur, SAMI back-filled ends and 4 s default, fps headers, "
      "WebVTT shift/ignore_timing_errors/lang), empty cues, and a reader object that already "
      "read another document; caption count, order, int type and exact equality of start/end. "
      "Exhaustive: MicroDVD frames 0..2.16M at 25 fps and 0..500k at 7 rates, all SS:FF pairs, "
      "offsets k/1000 s for k<1e5.",
      "trusts vf/ref/timeexpr.py and vf/ref/serial.py; TTML frame rate 30; either neighbour "
      "accepted for >6 fraction digits",
      "DESIGN.md 3/C01")
claim("C03",
      "Hypothesis metacharacter-pool texts x 7 writers, outputs parsed by independent "
      "conformant parsers (strict lxml XML, html.parser, own WebVTT/SRT/MicroDVD grammars); "
      "line-for-line comparison",
      "Generated-input search: 20k (thorough 600k) single-language sets whose lines are built "
      "from each format's delimiters, escapes and look-alikes mixed with printable Unicode, "
      "with empty lines and split text nodes; every cue parsed back by a parser that shares no "
      "code with pycaption must give exactly the authored lines and the same number of cues.",
      "trusts vf/ref/parsers.py; whitespace inside a line that was split into several text "
      "nodes is not compared",
      "DESIGN.md 3/C03")
claim("C04",
      "abstract caption model -> independent serialisers with generated spelling plans "
      "(entity spellings, wraps, tag nestings) -> pycaption readers; expected display text "
      "computed from the model",
      "Generated-input search: 25k (thorough 900k) documents in the five text formats; every "
      "authored run may carry named/decimal/hex references per character, entity look-alikes, "
      "source-line wraps, inline markup (spans, i/b/u/font, WebVTT c/ruby/rt/lang/timestamp/"
      "voice/unknown tags); per line, the text of TEXT nodes between BREAK nodes must equal the "
      "authored text after trimming and whitespace collapsing.",
      "trusts vf/ref/serial.py and the expectation rules in vf/props/c04.py; well-formed "
      "documents only (no raw < or & in text)",
      "DESIGN.md 3/C04")
claim("C08",
      "Hypothesis caption sets pushed through every ordered pair of the five formats and random "
      "3-6 format chains with pycaption's own writer+reader per hop; round-trip / metamorphic "
      "oracle (hop-by-hop comparison with the original, second pass vs first pass)",
      "Generated-input search: 900 (thorough 40k) sets x all 25 ordered pairs x 2 passes, 2.5k "
      "(100k) random chains of length 3-6, 1.5k (60k) two-language sets over DFXP/SAMI chains; "
      "after every hop cue count, whitespace-normalised lines and floor(t/resolution) of "
      "starts/ends are compared with the original set, and the second pass with the first.",
      "durations >= 40 ms, sorted non-overlapping cues, one text node per line; last-cue ends "
      "not compared once SAMI was on the chain",
      "DESIGN.md 3/C08")
claim("C13",
      "Hypothesis layouts over units x value grid x levels x video sizes x relativize/fit "
      "options, written by DFXP/SAMI/WebVTT writers; outputs parsed independently and compared "
      "with an exact Fraction reference geometry; expected-exception oracle for missing "
      "dimensions",
      "Generated-input search: 21k (thorough 800k) cases; each printed percentage must lie "
      "within 0.005 of px*100/dim (em=16px, pt=4/3px, 32x15 cells), RelativizationError must be "
      "raised exactly when a needed dimension is missing, WebVTT settings must be percentages, "
      "fit-to-screen must keep the region inside 90/95, fill a missing extent exactly and leave "
      "a fitting extent unchanged. Sizes shared as one object across axes are generated too.",
      "trusts the reference geometry in vf/props/c13.py; relativize=False judged only for "
      "all-percent layouts; DFXP div-level layouts are an open known finding",
      "DESIGN.md 3/C13")
claim("C12",
      "Hypothesis percent layouts at language/caption/span level: DFXP write+read round trip "
      "compared per character against the effective input layout; WebVTT cue settings parsed "
      "independently and compared with Fraction arithmetic; verbatim round trip of settings",
      "Generated-input search: 5k (thorough 150k) layered sets through DFXPWriter -> DFXPReader "
      "with fit_to_screen on/off, 6k (200k) sets through WebVTTWriter (align/position/line/size "
      "arithmetic with paddings, values aimed at round-number carries, cue splitting by layout), "
      "2k (50k) WebVTT files whose cue settings must be written back verbatim.",
      "values with <= 2 decimals; WebVTT arithmetic judged for layouts with an origin; "
      "language-level fit-to-screen in DFXP is an open known finding",
      "DESIGN.md 3/C12")
claim("C07",
      "Hypothesis API-built caption sets (metacharacter style values / ids / language codes, "
      "layouts at every level, balanced STYLE nodes, writer options) + every reader-produced "
      "set of the 162 repository documents + generated documents; three DFXP writers; output "
      "parsed by lxml without recovery and checked structurally",
      "Generated-input search: 10k (thorough 300k) API-built sets, 1944 corpus x writer x "
      "option combinations (exhaustive over the corpus), 5k (150k) sets read from generated "
      "documents. Oracle: strict XML parse, root tt in the TTML namespace, one div per written "
      "language, one p with begin/end per caption (per concurrent run for legacy/single), "
      "every style=/region= reference resolves to exactly one head definition, unique xml:id, "
      "no unreferenced region.",
      "lxml with collect_ids=False (xml:id NCName-ness is not part of the property; uniqueness "
      "is checked by the harness); style ids equal to generated region ids are an open finding",
      "DESIGN.md 3/C07")
claim("C14",
      "Hypothesis multi-language models -> independent DFXP/SAMI serialisers -> readers "
      "in-process and in pristine forked children under several PYTHONHASHSEED values and a "
      "PYCAPTION_DEFAULT_LANG setting; writer outputs parsed independently",
      "Generated-input search: 1.5k (thorough 40k) DFXP and 1.2k (30k) SAMI multi-language "
      "documents (divs without xml:lang, tt with/without xml:lang, class- or attribute-mapped "
      "SAMI languages; interleaved / coinciding / disjoint cue times) read in-process and in "
      "zygote children (hash seeds {0,1} / {0,1,2,3}, default language zz); 4k (100k) sets "
      "through DFXP(force) / legacy / single / SAMI / WebVTT(lang) with prefix-related tags "
      "(en, en-US) side by side; lang= on the four single-language readers.",
      "at most one div per language; SAMI language codes not prefixes of each other on the "
      "read side; legacy writer's documented fallback for an unknown force is not judged",
      "DESIGN.md 3/C14")
claim("C11",
      "Hypothesis flat style spans at generated boundaries; DFXP/SAMI round trips and cross "
      "conversions compared per character; WebVTT output tokenised by an independent cue-text "
      "tokenizer; bracket-matching of STYLE nodes for every reader-produced caption",
      "Generated-input search: 3k (thorough 100k) sets through DFXP>DFXP, SAMI>SAMI, DFXP>SAMI, "
      "SAMI>DFXP (per-character italic / bold / underline flags, output balance by strict XML "
      "and an html.parser tag stack), 6k (200k) sets through WebVTTWriter (i/b/u nesting and "
      "flags), and balance of STYLE nodes for all captions read from the 162 repository "
      "documents, generated DFXP/SAMI documents and generated SCC programs.",
      "flat balanced spans without layouts on the input side; DFXP judged for italics only",
      "DESIGN.md 3/C11")
claim("C09",
      "Hypothesis RuleBasedStateMachine over histories of writes (bundle of caption sets, pool "
      "of fresh / reused writer objects, 8 writers, options); invariant: deep structural dump "
      "of the input unchanged; differential: same outcome as first write in the history and as "
      "pristine forked children under several PYTHONHASHSEED values",
      "Generated-history search: 400 (thorough 10k) histories of up to 20 (40) steps; every "
      "write is bracketed by a structural snapshot of the whole caption set (also when the "
      "writer raises), every outcome (bytes or exception type) is compared with the first "
      "outcome of the same (set, writer, options) in the history and with a process that has "
      "done nothing else, for hash seeds {0,1} (thorough {0,1,2,3}).",
      "TranscriptWriter not exercised (nltk absent); an exception type counts as the outcome",
      "DESIGN.md 3/C09")
claim("C10",
      "Hypothesis RuleBasedStateMachine over histories of reads / writes / edits on fresh and "
      "reused reader objects; differential against pristine forked children under several "
      "PYTHONHASHSEED values; isolation invariant over all live caption sets after every step",
      "Generated-history search: 600 (thorough 12k) histories of up to 20 (40) steps over the "
      "162 repository documents, digit-mutated variants of them, families of look-alike DFXP / "
      "SAMI documents and generated documents of five formats; every read outcome (canonical "
      "dump or exception type) must equal the outcome in a process that has done nothing else "
      "(hash seeds {0,1} / {0,1,2,3}); after every read, write or edit all other live caption "
      "sets must dump as before.",
      "an exception type counts as the outcome; at most 8 caption sets are kept alive",
      "DESIGN.md 3/C10")
claim("C05",
      "abstract pop-on programs (Hypothesis) + exhaustive sweeps over all 480 PAC words x tab "
      "offsets x doubling, all 175 character codes in context, all short action sequences; "
      "differential against an independent grid-based CEA-608 decoder with tables computed "
      "from the bit layout",
      "Generated-program search: 5k (thorough 400k) single-caption and 2.5k (300k) multi-"
      "caption programs, 3840 PAC programs, 2926 character programs and all action sequences "
      "of length <=3 (thorough <=5) in single and doubled form; per caption: count and order, "
      "characters per line, transmitted spaces kept / none inserted between adjacent "
      "characters, row grouping, (row, column) -> percentage position within 1e-9, italic flag "
      "of every visible character, balance of STYLE nodes.",
      "trusts vf/ref/cea608.py (tables cross-checked: they agree with all 480 PACs and 175 "
      "character codes of pycaption); rows loaded top-down with one PAC each; captions whose "
      "first row is the previous caption's last row (+1) are an open known finding",
      "DESIGN.md 3/C05")
claim("C06",
      "abstract pop-on programs laid out in time (Hypothesis) read with generated offsets; "
      "differential against an exact Fraction transmission clock of the independent decoder; "
      "expected-exception oracle for sub-0.05 s displays; metamorphic ';' vs ':' timecode ratio",
      "Generated-program search: 5k (thorough 300k) programs with EOC at generated word "
      "positions, single/doubled codes, EDM inline / 1-12 frames before the EOC / absent, flash "
      "displays of 1-3 frames, cleared and never-cleared final captions, offsets incl. values "
      "beyond the first start; start/end within 0.01 us of the exact clock, five-frame gap "
      "closing, 4 s default, order, start <= end, CaptionReadTimingError exactly when a display "
      "lasts under 0.05 s; 1.5k (100k) programs read with both timecode kinds (ratio "
      "1001:1000).",
      "trusts vf/ref/cea608.py clock; boundary of the gap rule follows the pinned test; ends "
      "floored to zero by the offset are not compared",
      "DESIGN.md 3/C06")
claim("C15",
      "Hypothesis SCC streams in pop-on / roll-up / paint-on mode with generated row lengths "
      "(biased to 31-34), mid-row codes inside rows, unterminated final captions; expected "
      "outcome computed from the row lengths; metamorphic re-run under every permutation of the "
      "rows of each group",
      "Generated-input search: 8k (thorough 200k) streams x all row permutations (<=36 per "
      "case): read() must raise CaptionLineLengthError naming every row longer than 32, or "
      "return only lines of <=32 characters, and the outcome class must not change with the "
      "order or grouping of rows.",
      "rows are letter runs without edge spaces; a 32-character row containing a mid-row code "
      "may legitimately go either way (the code occupies a cell)",
      "DESIGN.md 3/C15")
claim("C16",
      "Hypothesis roll-up / paint-on streams built from an abstract row model with computed "
      "byte codes; conservation oracle (transmitted characters == returned characters, rows "
      "contiguous) and timeline invariants over the returned captions",
      "Generated-input search: 8k (thorough 250k) streams: RU2/3/4 once or per line, CR, PAC on "
      "row 15 or other / varying rows and indents, 1-8 rows of 1-32 columns (biased to 30-32) "
      "with special characters, single / doubled codes, both timecode kinds, first line at "
      "timecode zero or later, closed or unterminated; paint-on bursts of 1-3 rows.",
      "captions sharing a start time are treated as one display state; simulate_roll_up default",
      "DESIGN.md 3/C16")
claim("C17",
      "Hypothesis caption sets over the basic character table with cue spacing derived from a "
      "dry run of the writer; output checked lexically and byte-wise, decoded with the "
      "independent CEA-608 decoder and clock, and re-read with SCCReader (round trip)",
      "Generated-input search: 5k (thorough 200k) sets of 1-5 captions, 1-4 lines of 1-80 "
      "characters (words up to 40 characters, hyphenated words, lines of exactly 31-33 "
      "columns), spacing from just-feasible (slack 0-5 frames) to sparse: header and line "
      "syntax, odd parity of every byte, PAC rows 1-15, rows <= 32 columns broken only at "
      "spaces / hyphens / inside over-long tokens, non-decreasing non-overlapping lines, "
      "visibility within three frames of the start, same words after SCCReader.",
      "trusts vf/ref/cea608.py; hyphen breaks accepted (textwrap semantics)",
      "DESIGN.md 3/C17")
