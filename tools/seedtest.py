#!/venv/bin/python
"""Confirm a seeded change and run a property's check against it.

usage: tools/seedtest.py <worktree> <seed-dir> <property> [--tier quick] [--keep]

In <worktree> (a scratch git worktree of /repo, outside /repo and /verif):
  checkout /repo's current main (detached) -> demo must pass -> apply patch -> the pinned
  suite must still pass (217) -> demo must fail -> ./check <property> with VERIF_REPO=<worktree>
  must exit 1 -> revert.  Prints one JSON line with the outcome.
"""
import json
import os
import re
import subprocess
import sys
import time

VERIF = os.path.dirname(os.path.dirname(os.path.abspath(__file__)))


def sh(cmd, cwd=None, env=None, timeout=3600):
    p = subprocess.run(cmd, shell=True, cwd=cwd, env=env, capture_output=True, text=True,
                       timeout=timeout)
    return p.returncode, p.stdout + p.stderr


def main():
    wt, sd, prop = sys.argv[1:4]
    tier = "quick"
    if "--tier" in sys.argv:
        tier = sys.argv[sys.argv.index("--tier") + 1]
    res = {"seed": os.path.basename(sd.rstrip("/")), "property": prop, "tier": tier}
    head = sh("git -C /repo rev-parse HEAD")[1].strip()
    sh(f"git checkout -q -- . && git checkout -q --detach {head}", cwd=wt)
    env = dict(os.environ, PYTHONPATH=wt, PYTHONDONTWRITEBYTECODE="1")
    demo = os.path.join(sd, "demo.py")
    rc, out = sh(f"/venv/bin/python {demo}", cwd=wt, env=env)
    res["demo_clean_rc"] = rc
    pf = os.path.join(sd, "patch.diff")
    rc, out = sh(f"git apply {pf}", cwd=wt)
    if rc != 0:
        sh("git checkout -q -- . ; git reset -q --hard", cwd=wt)
        rc, out = sh(f"patch -p1 -F3 --no-backup-if-mismatch < {pf}", cwd=wt)
        res["applied_with_fuzz"] = True
        sh("find . -name '*.orig' -delete -o -name '*.rej' -delete", cwd=wt)
    res["apply_rc"] = rc
    if rc != 0:
        res["apply_out"] = out[-500:]
        print(json.dumps(res))
        sh("git checkout -q -- . ; git reset -q --hard", cwd=wt)
        return 1
    sh("git reset -q", cwd=wt)
    rc, out = sh("/venv/bin/python -m pytest -q -p no:cacheprovider "
                 "--continue-on-collection-errors tests 2>&1 | tail -1", cwd=wt, env=env)
    m = re.search(r"(\d+) passed", out)
    res["tests_passed"] = int(m.group(1)) if m else out[-200:]
    res["tests_failed"] = "failed" in out
    rc, out = sh(f"/venv/bin/python {demo}", cwd=wt, env=env)
    res["demo_patched_rc"] = rc
    t0 = time.time()
    cenv = dict(os.environ, VERIF_REPO=wt, VERIF_EVIDENCE_DIR="/tmp/vfscratch/evidence",
                VERIF_OUT_DIR="/tmp/vfscratch/out")
    cenv.pop("PYTHONPATH", None)
    rc, out = sh(f"./check {prop} --tier {tier}", cwd=VERIF, env=cenv)
    res["check_rc"] = rc
    res["check_s"] = round(time.time() - t0, 1)
    v = [l for l in out.splitlines() if l.startswith("VIOLATION") or l.startswith("  subcheck=")]
    res["check_out"] = v[:4] if v else out.splitlines()[-3:]
    res["detected"] = rc == 1
    sh("git checkout -q -- . ; git reset -q --hard; git clean -fdq pycaption tests", cwd=wt)
    print(json.dumps(res))
    confirmed = (res["demo_clean_rc"] == 0 and res["tests_passed"] == 217
                 and not res["tests_failed"] and res["demo_patched_rc"] != 0)
    if "--keep" in sys.argv and confirmed:
        import shutil
        dst = os.path.join(VERIF, "seeded", res["seed"])
        os.makedirs(dst, exist_ok=True)
        for fn in ("patch.diff", "demo.py"):
            shutil.copy(os.path.join(sd, fn), os.path.join(dst, fn))
        try:
            meta = json.load(open(os.path.join(sd, "meta.json")))
        except Exception:  # noqa
            meta = {}
        old = {}
        if os.path.exists(os.path.join(dst, "meta.json")):
            old = json.load(open(os.path.join(dst, "meta.json")))
        meta["breaks_property"] = meta.get("property", res["seed"][:3])
        meta["confirmed_by_verif"] = {
            "worktree": wt, "repo_head": head, "demo_on_clean_tree_rc": res["demo_clean_rc"],
            "pinned_tests_passed_with_patch": res["tests_passed"],
            "demo_with_patch_rc": res["demo_patched_rc"],
            "procedure": "tools/seedtest.py: checkout /repo HEAD in scratch worktree, run demo, "
                         "git apply patch, run pinned suite, run demo, run ./check with "
                         "VERIF_REPO=<worktree>, revert",
        }
        runs = old.get("check_runs", {})
        runs[f"{prop}:{tier}"] = {"exit": res["check_rc"], "detected": res["detected"],
                                  "seconds": res["check_s"], "output": res["check_out"]}
        meta["check_runs"] = runs
        with open(os.path.join(dst, "meta.json"), "w") as f:
            json.dump(meta, f, indent=1)
            f.write("\n")
    return 0


if __name__ == "__main__":
    sys.exit(main())
