#!/venv/bin/python
"""Regenerates /verif/MANIFEST.json from the table below and validates it."""
import json
import os
import sys

HERE = os.path.dirname(os.path.dirname(os.path.abspath(__file__)))

# id -> (technique, level text, level note, design ref)
CLAIMED = {}


def claim(pid, technique, text, note, ref):
    CLAIMED[pid] = (technique, text, note, ref)


NOT_BUILT = "check not built yet in this session (planned in DESIGN.md); not claimed"

exec(open(os.path.join(HERE, "tools", "claims.py")).read())

props = [json.loads(l) for l in open(os.path.join(HERE, "properties.jsonl"))]
checks = []
na = []
for p in props:
    pid = p["id"]
    if pid in CLAIMED:
        tech, text, note, ref = CLAIMED[pid]
        checks.append({
            "property_id": pid,
            "quick_cmd": f"./check {pid} --tier quick",
            "thorough_cmd": f"./check {pid} --tier thorough",
            "evidence_file": f"/verif/evidence/{pid}.json",
            "replay_cmd_template": f"./check {pid} --replay {{path}}",
            "engine": "vf",
            "level_claimed": {"category": "exploration", "text": text, "design_ref": ref},
            "level_note": note,
            "technique": tech,
        })
    else:
        na.append({"property_id": pid, "reason": NOT_BUILT})

manifest = {
    "version": 1,
    "setup_cmd": "./setup.sh",
    "hooks": {
        "guard": "PYCAPTION_VERIF",
        "enable": "no hooks: every observation point is public API output; checks import "
                  "pycaption from /repo's working tree (VERIF_REPO overrides the path)",
        "baseline_off_cmd": "cd /repo && /venv/bin/python -m pytest -ra -q -p no:cacheprovider "
                            "--timeout=900 --continue-on-collection-errors",
        "source_commits": [],
        "add_only": True,
    },
    "engines": [{
        "name": "vf", "path": "/verif/vf",
        "serves_properties": sorted(CLAIMED),
        "kind_free_text": "Hypothesis (6.168) strategies and rule-based state machines, "
                          "exhaustive itertools sweeps over small finite domains, sharded over "
                          "16 processes; independent reference parsers/serialisers as oracles",
    }],
    "checks": checks,
    "notes": "Property-based testing / fuzzing only. ./check <id> exits 0 / 1 (+VIOLATION line) "
             "/ 2 (harness error). Known findings: KNOWN_FINDINGS.txt. Seeded breakages: seeded/.",
    "not_applicable": na,
}
out = os.path.join(HERE, "MANIFEST.json")
with open(out, "w") as f:
    json.dump(manifest, f, indent=1)
    f.write("\n")
try:
    import jsonschema
    jsonschema.validate(manifest, json.load(open("/root/.vp/MANIFEST.schema.json")))
    print("MANIFEST.json valid;", len(checks), "claimed,", len(na), "not claimed")
except ImportError:
    print("jsonschema not available; wrote MANIFEST.json unvalidated")
