#!/venv/bin/python
"""Writes /verif/seeded/RESULTS.md from seeded/*/meta.json."""
import glob
import json
import os

HERE = os.path.dirname(os.path.dirname(os.path.abspath(__file__)))
rows = []
try:
    NOTES = json.load(open(os.path.join(HERE, "seeded", "NOTES.json")))
except FileNotFoundError:
    NOTES = {}
for d in sorted(glob.glob(os.path.join(HERE, "seeded", "C*_*"))):
    m = json.load(open(os.path.join(d, "meta.json")))
    name = os.path.basename(d)
    runs = m.get("check_runs", {})
    best = None
    for k, r in sorted(runs.items()):
        best = (k, r)
    prop = m.get("breaks_property", name[:3])
    summ = " ".join(str(m.get("summary", "")).split())[:160]
    need = " ".join(str(m.get("needs_to_manifest", "")).split())[:160]
    if best:
        k, r = best
        first = ""
        for ln in r.get("output", []):
            if "subcheck=" in ln:
                first = ln.strip().split(":", 1)[0].replace("subcheck=", "")
                break
        # seeded/NOTES.json: {seed: why a change is, by the check's documented assumptions, not a
        # violation} - kept outside meta.json, which tools/seedtest.py rewrites
        note = NOTES.get(name)
        verdict = 'yes' if r['detected'] else ('no (' + note + ')' if note else 'NO')
        rows.append(f"| {name} | {prop} | {summ} | {need} | {k} | {verdict} | {r['seconds']} | {first} |")
    else:
        rows.append(f"| {name} | {prop} | {summ} | {need} | - | - | - | - |")
with open(os.path.join(HERE, "seeded", "RESULTS.md"), "w") as f:
    f.write("# Seeded changes and which check catches them\n\n"
            "Each change was written by an independent sub-agent that saw only the property text and "
            "a scratch worktree; it passes the 217 pinned tests and comes with a demonstration that "
            "fails with it and passes without it (confirmed by tools/seedtest.py, see meta.json).\n\n"
            "| seed | property | change | needs | check run | detected | seconds | subcheck |\n"
            "|---|---|---|---|---|---|---|---|\n")
    f.write("\n".join(rows) + "\n")
print(len(rows), "rows")
