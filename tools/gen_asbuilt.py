#!/venv/bin/python
"""Rewrites the '*As built (vf/props/cXX.py).*' paragraphs of DESIGN.md from the modules' RULE /
ASSUMPTIONS text and subcheck names."""
import importlib
import os
import re
import sys
import textwrap

HERE = os.path.dirname(os.path.dirname(os.path.abspath(__file__)))
sys.path.insert(0, HERE)
import vf  # noqa
vf.import_sut()

path = os.path.join(HERE, "DESIGN.md")
s = open(path).read()
n = 0
for k in range(1, 21):
    mod = importlib.import_module(f"vf.props.c{k:02d}")
    names = ", ".join(sub.name for sub in mod.subchecks("quick"))
    text = f"*As built (vf/props/c{k:02d}.py).* Subchecks: {names}. {' '.join(mod.RULE.split())}"
    if mod.ASSUMPTIONS:
        text += " Assumptions: " + "; ".join(" ".join(a.split()) for a in mod.ASSUMPTIONS) + "."
    para = "\n".join(textwrap.wrap(text, 79, break_long_words=False, break_on_hyphens=False))
    pat = re.compile(r"\*As built \(vf/props/c%02d\.py\)\.\*.*?(?=\n\n)" % k, re.S)
    if pat.search(s):
        s = pat.sub(lambda m: para, s, count=1)
        n += 1
open(path, "w").write(s)
print(n, "paragraphs rewritten")
