#!/bin/bash
# tools/seed_round.sh <root> <Cxx> [check-property]: confirm and test every seed of one worktree
cd "$(dirname "$0")/.." || exit 2
root=$1; id=$2; prop=${3:-$2}
for d in "$root/$id/_seed/${id}"_*; do
  [ -d "$d" ] || continue
  ./tools/seedtest.py "$root/$id" "$d" "$prop" --keep | cut -c1-900
done
