#!/bin/bash
# Runs every quick check under several VERIF_SEED values on the unchanged tree; prints one line per run.
cd "$(dirname "$0")/.." || exit 2
SEEDS="${*:-2 3 4 5 6}"
for s in $SEEDS; do
  for p in C01 C02 C03 C04 C05 C06 C07 C08 C09 C10 C11 C12 C13 C14 C15 C16 C17 C18 C19 C20; do
    t0=$(date +%s)
    out=$(VERIF_SEED=$s ./check $p --tier quick 2>&1); rc=$?
    t1=$(date +%s)
    echo "seed=$s $p rc=$rc $((t1-t0))s $(echo "$out" | grep -c '^VIOLATION') violations"
    if [ $rc -ne 0 ]; then echo "$out" | grep -A2 'VIOLATION\|HARNESS' | head -12 | cut -c1-600; fi
  done
done
