#!/bin/bash
# Offline setup: verifies the interpreter has what the checks need; installs hypothesis from
# the local wheelhouse into /verif/.deps if /venv lacks it.  No network access.
cd "$(dirname "$0")" || exit 1
PY=/venv/bin/python
[ -x "$PY" ] || PY=python3
export PIP_NO_INDEX=1
if ! "$PY" -c "import hypothesis" 2>/dev/null; then
  "$PY" -m pip install --no-index --find-links /opt/veriftools/wheels --target .deps hypothesis || exit 1
fi
# optional: atheris for the coverage-guided legs of C18 / C20 (they yield no inputs without it)
if ! PYTHONPATH=.deps "$PY" -c "import atheris" 2>/dev/null; then
  "$PY" -m pip install --no-index --find-links /opt/veriftools/wheels --target .deps atheris >/dev/null 2>&1 || true
fi
PYTHONPATH=.deps "$PY" - <<'PY' || exit 1
import hypothesis, lxml, bs4, cssutils
import sys
sys.path.insert(0, "/verif")
import vf
vf.import_sut()
print("setup ok: hypothesis", hypothesis.__version__)
PY
