"""Abstract, JSON-able caption model <-> pycaption objects.

set   : {"langs": [lang...], "styles": {id: {k: v}}, "layout": L|None}
lang  : {"code": str, "layout": L|None, "cues": [cue...]}
cue   : {"start": num, "end": num, "nodes": [node...], "style": {..}, "layout": L|None}
node  : {"t": str, "layout": L?} | {"br": 1, "layout": L?} | {"s": bool, "c": {..}, "layout": L?}
L     : {"origin": [[v,u],[v,u]]|None, "extent": [[v,u],[v,u]]|None,
         "padding": [[v,u]x4 (before, after, start, end)]|None,
         "align": [h|None, v|None]|None, "webvtt": str|None}
"""
import json

from . import import_sut

import_sut()
from pycaption.base import Caption, CaptionList, CaptionNode, CaptionSet  # noqa: E402
from pycaption.geometry import (  # noqa: E402
    Alignment, HorizontalAlignmentEnum, Layout, Padding, Point, Size, Stretch,
    UnitEnum, VerticalAlignmentEnum,
)


def size_to_py(s):
    return Size(s[0], UnitEnum(s[1]))


def layout_to_py(L):
    if L is None:
        return None
    origin = extent = padding = alignment = None
    if L.get("origin"):
        origin = Point(size_to_py(L["origin"][0]), size_to_py(L["origin"][1]))
    if L.get("extent"):
        extent = Stretch(size_to_py(L["extent"][0]), size_to_py(L["extent"][1]))
    if L.get("padding"):
        p = [None if x is None else size_to_py(x) for x in L["padding"]]
        padding = Padding(before=p[0], after=p[1], start=p[2], end=p[3])
    if L.get("align"):
        h, v = L["align"]
        alignment = Alignment(
            HorizontalAlignmentEnum(h) if h else None,
            VerticalAlignmentEnum(v) if v else None)
    return Layout(origin=origin, extent=extent, padding=padding, alignment=alignment,
                  webvtt_positioning=L.get("webvtt"))


def node_to_py(n):
    lay = layout_to_py(n.get("layout"))
    if "t" in n:
        return CaptionNode.create_text(n["t"], layout_info=lay)
    if "br" in n:
        return CaptionNode.create_break(layout_info=lay)
    if "s" in n:
        return CaptionNode.create_style(bool(n["s"]), json.loads(json.dumps(n["c"])),
                                        layout_info=lay)
    raise ValueError(n)


def cue_to_py(c):
    return Caption(c["start"], c["end"], [node_to_py(n) for n in c["nodes"]],
                   style=json.loads(json.dumps(c.get("style") or {})),
                   layout_info=layout_to_py(c.get("layout")))


def to_pycaption(m):
    caps = {}
    for lang in m["langs"]:
        caps[lang["code"]] = CaptionList([cue_to_py(c) for c in lang["cues"]],
                                         layout_info=layout_to_py(lang.get("layout")))
    return CaptionSet(caps, styles=json.loads(json.dumps(m.get("styles") or {})),
                      layout_info=layout_to_py(m.get("layout")))


# ---------------------------------------------------------------- dumping

def _num(x):
    if isinstance(x, bool):
        return x
    if isinstance(x, int):
        return x
    if isinstance(x, float):
        return x
    return repr(x)


def dump_size(s):
    if s is None:
        return None
    return [_num(s.value), getattr(s.unit, "value", repr(s.unit))]


def dump_layout(L):
    if L is None:
        return None
    if not isinstance(L, Layout):
        return {"foreign": repr(L)}
    o = L.origin
    e = L.extent
    p = L.padding
    a = L.alignment
    return {
        "origin": None if o is None else [dump_size(o.x), dump_size(o.y)],
        "extent": None if e is None else [dump_size(e.horizontal), dump_size(e.vertical)],
        "padding": None if p is None else [dump_size(p.before), dump_size(p.after),
                                           dump_size(p.start), dump_size(p.end)],
        "align": None if a is None else [getattr(a.horizontal, "value", a.horizontal),
                                         getattr(a.vertical, "value", a.vertical)],
        "webvtt": L.webvtt_positioning,
    }


def _jsonable(x):
    try:
        return json.loads(json.dumps(x, sort_keys=True))
    except (TypeError, ValueError):
        return repr(x)


def dump_node(n):
    lay = dump_layout(getattr(n, "layout_info", None))
    if n.type_ == CaptionNode.TEXT:
        d = {"t": n.content}
    elif n.type_ == CaptionNode.BREAK:
        d = {"br": 1}
        if n.content is not None:
            d["c"] = _jsonable(n.content)
    elif n.type_ == CaptionNode.STYLE:
        d = {"s": n.start, "c": _jsonable(n.content)}
    else:
        d = {"unknown": n.type_}
    d["layout"] = lay
    pos = getattr(n, "position", None)
    if pos is not None:
        d["pos"] = _jsonable(pos)
    return d


def dump_cue(c):
    return {"start": _num(c.start), "end": _num(c.end),
            "nodes": [dump_node(n) for n in c.nodes],
            "style": _jsonable(c.style), "layout": dump_layout(c.layout_info)}


def dump(cs):
    langs = []
    for code in cs.get_languages():
        caps = cs.get_captions(code)
        langs.append({"code": code, "layout": dump_layout(getattr(caps, "layout_info", None)),
                      "cues": [dump_cue(c) for c in caps]})
    return {"langs": langs, "styles": _jsonable(dict(cs._styles)),
            "layout": dump_layout(cs.layout_info)}


# ---------------------------------------------------------------- text helpers

def cue_lines_py(caption):
    """Lines of a pycaption Caption: text of TEXT nodes between BREAK nodes."""
    lines = [""]
    for n in caption.nodes:
        if n.type_ == CaptionNode.TEXT:
            lines[-1] += n.content
        elif n.type_ == CaptionNode.BREAK:
            lines.append("")
    return lines


def cue_lines_model(cue):
    lines = [""]
    for n in cue["nodes"]:
        if "t" in n:
            lines[-1] += n["t"]
        elif "br" in n:
            lines.append("")
    return lines


def norm_line(s):
    """Trim and collapse whitespace runs (Unicode whitespace incl. NBSP)."""
    return " ".join(s.split())


def norm_lines(lines, drop_empty=True):
    out = [norm_line(x) for x in lines]
    if drop_empty:
        out = [x for x in out if x]
    return out


def share_layouts(cs):
    """Make equal Layout objects of a caption set one shared object (an API user positions
    several captions / nodes with the same Layout instance; readers create one per element)."""
    pool = {}

    def one(L):
        if L is None:
            return None
        return pool.setdefault(L, L)
    cs.layout_info = one(cs.layout_info)
    for lang in cs.get_languages():
        cs.set_layout_info(lang, one(cs.get_layout_info(lang)))
        for c in cs.get_captions(lang):
            c.layout_info = one(c.layout_info)
            for n in c.nodes:
                n.layout_info = one(n.layout_info)
    return len(pool)
