"""Campaign runner: tiers, seeds, sharding over processes, evidence, replay files.

A property module (vf/props/cNN.py) exposes

    PROPERTY = "C20"
    RULE = "<how cases are generated and what makes one non-trivial>"
    ASSUMPTIONS = ["..."]
    def subchecks(tier): -> [Sub, ...]

Every case is a JSON value.  `Sub.check(case, rec)` evaluates the oracle on one
case and raises `Violation` when the property is broken; any other exception
that escapes it is a harness error (exit 2), never a VIOLATION.  Calls into
pycaption that the property says must succeed are wrapped in `must(...)`,
which turns an exception raised by the code under test into a Violation.
"""
import hashlib
import importlib
import json
import math
import multiprocessing as mp
import os
import sys
import time
import traceback
import zlib
from collections import Counter
from contextlib import contextmanager
from dataclasses import dataclass, field

from . import VERIF_DIR, HarnessError, import_sut
from . import findings as findings_mod


class Violation(AssertionError):
    """The property under test does not hold for the current case."""


SHRINK_BUDGET_S = 90   # wall time a shard may spend shrinking after its first failure
CASE_CPU_LIMIT_S = 60  # CPU seconds one generated case may burn (typical cases: milliseconds)


class _CaseTimeout(BaseException):
    pass


def guarded(check, case, rec):
    """Run one oracle evaluation under a CPU-time limit (process CPU, so a loaded machine does
    not count): code under test that never returns is reported, not waited for."""
    import signal

    def on_alarm(signum, frame):
        raise _CaseTimeout()
    try:
        old = signal.signal(signal.SIGPROF, on_alarm)
    except ValueError:      # not in the main thread: no guard
        return check(case, rec)
    signal.setitimer(signal.ITIMER_PROF, CASE_CPU_LIMIT_S)
    try:
        return check(case, rec)
    except _CaseTimeout:
        raise Violation(f"the code under test did not finish one generated case within {CASE_CPU_LIMIT_S} s "
                        f"of CPU time (cases normally take milliseconds): it hangs or has become "
                        f"pathologically slow")
    finally:
        signal.setitimer(signal.ITIMER_PROF, 0)
        signal.signal(signal.SIGPROF, old)


class _Abort(BaseException):
    """Stops a campaign early (another shard failed / wall budget used up)."""


@contextmanager
def must(what, allow=()):
    """Code under test that must not raise (except the `allow`ed types)."""
    try:
        yield
    except allow:
        raise
    except Violation:
        raise
    except _Abort:
        raise
    except Exception as e:  # noqa
        tb = traceback.extract_tb(e.__traceback__)
        where = ""
        for fr in reversed(tb):
            if "pycaption" in fr.filename and "/vf/" not in fr.filename:
                where = f" at {os.path.basename(fr.filename)}:{fr.lineno}"
                break
        raise Violation(f"{what} raised {type(e).__name__}: {str(e)[:200]}{where}")


def require(cond, msg):
    if not cond:
        raise Violation(msg() if callable(msg) else msg)


@dataclass
class Sub:
    name: str
    check: callable
    strategy: callable = None      # tier -> hypothesis strategy
    examples: tuple = (1000, 20000)  # total generated cases (quick, thorough)
    chunks: callable = None        # tier -> list of JSON chunk descriptors
    expand: callable = None        # chunk -> iterable of cases
    machine: callable = None       # (tier, hook) -> RuleBasedStateMachine class
    steps: tuple = (20, 40)
    min_per_shard: int = 50
    max_shards: int = 16
    exhaustive: bool = False       # sweep enumerates its space completely
    budget_s: tuple = (150, 3000)  # wall budget per shard; exceeding => truncated


class Recorder:
    """Per-process bookkeeping of what a campaign actually covered."""

    def __init__(self, open_findings):
        self.open_findings = set(open_findings)
        self.evaluations = 0
        self.nt_set = set()
        self.labels = Counter()
        self.excluded = Counter()
        self.samples = []
        self._sample_src = []
        self._cj = None
        self._nt = False
        self._key = None

    # -- per case
    def begin(self, case):
        self._cj = json.dumps(case, sort_keys=True, ensure_ascii=True, default=str)
        self._nt = False
        self._excl = False
        self.evaluations += 1

    def label(self, name):
        self.labels[name] += 1

    def nontrivial(self, flag=True):
        if flag:
            self._nt = True

    def is_open(self, finding_id):
        return finding_id in self.open_findings

    def excluded_known(self, finding_id):
        """The case has the shape of an open known finding and was not judged."""
        if not self._excl:
            self.excluded[finding_id] += 1
        self._excl = True

    def end(self, ok=True):
        if self._nt and ok and not self._excl:
            h = int.from_bytes(hashlib.sha1(self._cj.encode()).digest()[:8], "big")
            if h not in self.nt_set:
                self.nt_set.add(h)
                # keep the first non-trivial case and the two richest ones (longest JSON <= 4 kB)
                n = len(self._cj)
                if len(self._sample_src) < 3:
                    self._sample_src.append((n, self._cj))
                elif n <= 4096:
                    k = min(range(1, 3), key=lambda i: self._sample_src[i][0])
                    if self._sample_src[k][0] < n:
                        self._sample_src[k] = (n, self._cj)
                self.samples = [json.loads(c) for _, c in self._sample_src]

    def summary(self):
        return dict(evaluations=self.evaluations, nontrivial=list(self.nt_set),
                    labels=dict(self.labels), excluded=dict(self.excluded),
                    samples=self.samples)


def norm(case):
    """JSON round trip so that generation and replay see identical values."""
    return json.loads(json.dumps(case, default=_json_default))


def _json_default(o):
    if isinstance(o, (set, frozenset)):
        return sorted(o)
    if isinstance(o, tuple):
        return list(o)
    raise TypeError(f"not JSON-able: {type(o)}")


def load_prop(prop_id):
    import_sut()
    return importlib.import_module(f"vf.props.{prop_id.lower()}")


_STOP = None  # multiprocessing.Event shared by fork


def _salt(name):
    return zlib.crc32(name.encode()) % 997


def _task_hyp(args):
    prop_id, sub_name, tier, seed, n, open_ids = args
    t0 = time.time()
    out = dict(sub=sub_name, kind="hyp", failure=None, error=None, truncated=False)
    rec = Recorder(open_ids)
    try:
        import hypothesis
        from hypothesis import HealthCheck, Phase, given, settings
        mod = load_prop(prop_id)
        sub = {s.name: s for s in mod.subchecks(tier)}[sub_name]
        budget = sub.budget_s[0 if tier == "quick" else 1]
        state = {"failed": False}
        failure = {}

        @hypothesis.seed(seed)
        @settings(max_examples=n, database=None, deadline=None, derandomize=False,
                  report_multiple_bugs=False, print_blob=False,
                  phases=[Phase.generate, Phase.shrink],
                  suppress_health_check=list(HealthCheck))
        @given(sub.strategy(tier))
        def test(case):
            if not state["failed"]:
                if _STOP is not None and _STOP.is_set():
                    raise _Abort()
                if time.time() - t0 > budget:
                    out["truncated"] = True
                    raise _Abort()
            elif time.time() - state["t_fail"] > SHRINK_BUDGET_S:
                raise _Abort()
            case = norm(case)
            rec.begin(case)
            ok = False
            try:
                guarded(sub.check, case, rec)
                ok = True
            except Violation as v:
                if not state["failed"]:
                    state["t_fail"] = time.time()
                state["failed"] = True
                if _STOP is not None:
                    _STOP.set()
                failure["case"] = case
                failure["message"] = str(v)
                raise
            finally:
                rec.end(ok)

        try:
            test()
        except Violation:
            out["failure"] = dict(failure)
        except _Abort:
            if state["failed"]:
                out["failure"] = dict(failure)
        except hypothesis.errors.Flaky as e:  # flaky => report the recorded failure
            if failure:
                out["failure"] = dict(failure, message=failure.get("message", "") + " [flaky]")
            else:
                out["error"] = "Flaky: " + str(e)[:500]
    except _Abort:
        pass
    except BaseException:  # noqa
        out["error"] = traceback.format_exc()
    out.update(rec.summary())
    out["wall"] = time.time() - t0
    return out


def _task_sweep(args):
    prop_id, sub_name, tier, chunk, open_ids = args
    t0 = time.time()
    out = dict(sub=sub_name, kind="sweep", failure=None, error=None, truncated=False)
    rec = Recorder(open_ids)
    try:
        mod = load_prop(prop_id)
        sub = {s.name: s for s in mod.subchecks(tier)}[sub_name]
        for case in sub.expand(chunk):
            if _STOP is not None and _STOP.is_set():
                out["aborted"] = True
                break
            case = norm(case)
            rec.begin(case)
            ok = False
            try:
                guarded(sub.check, case, rec)
                ok = True
            except Violation as v:
                out["failure"] = dict(case=case, message=str(v))
                if _STOP is not None:
                    _STOP.set()
                break
            finally:
                rec.end(ok)
    except BaseException:  # noqa
        out["error"] = traceback.format_exc()
    out.update(rec.summary())
    out["wall"] = time.time() - t0
    return out


def _task_machine(args):
    prop_id, sub_name, tier, seed, n, open_ids = args
    t0 = time.time()
    out = dict(sub=sub_name, kind="machine", failure=None, error=None, truncated=False)
    rec = Recorder(open_ids)
    try:
        import hypothesis
        from hypothesis import HealthCheck, Phase, settings
        from hypothesis.stateful import run_state_machine_as_test
        mod = load_prop(prop_id)
        sub = {s.name: s for s in mod.subchecks(tier)}[sub_name]
        budget = sub.budget_s[0 if tier == "quick" else 1]
        state = {"failed": False}
        failure = {}

        class Hook:
            """Given to the machine: it reports each finished history here."""
            recorder = rec

            @staticmethod
            def start():
                if not state["failed"]:
                    if _STOP is not None and _STOP.is_set():
                        raise _Abort()
                    if time.time() - t0 > budget:
                        out["truncated"] = True
                        raise _Abort()
                elif time.time() - state["t_fail"] > SHRINK_BUDGET_S:
                    raise _Abort()

            @staticmethod
            def harness_error(tb):
                """An exception that is not a Violation escaped a rule: stop, report exit 2."""
                out["error"] = tb
                raise _Abort()

            @staticmethod
            def failed(history, message):
                if not state["failed"]:
                    state["t_fail"] = time.time()
                state["failed"] = True
                if _STOP is not None:
                    _STOP.set()
                failure["case"] = norm(history)
                failure["message"] = message

        Machine = sub.machine(tier, Hook)
        st = settings(max_examples=n, database=None, deadline=None, derandomize=False,
                      report_multiple_bugs=False, print_blob=False,
                      stateful_step_count=sub.steps[0 if tier == "quick" else 1],
                      phases=[Phase.generate, Phase.shrink],
                      suppress_health_check=list(HealthCheck))
        try:
            run_state_machine_as_test(hypothesis.seed(seed)(Machine), settings=st)
        except Violation:
            out["failure"] = dict(failure)
        except _Abort:
            if state["failed"]:
                out["failure"] = dict(failure)
        except hypothesis.errors.Flaky as e:
            # Hypothesis reports "inconsistent data generation" when our _Abort cuts a
            # replayed history short; that is an abort, not a verdict.
            if failure:
                out["failure"] = dict(failure)
            elif out.get("error") or out["truncated"] or (_STOP is not None and _STOP.is_set()):
                pass
            else:
                out["error"] = "Flaky: " + str(e)[:500]
    except _Abort:
        pass
    except BaseException:  # noqa
        out["error"] = traceback.format_exc()
    out.update(rec.summary())
    out["wall"] = time.time() - t0
    return out


def _dispatch(task):
    kind = task[0]
    if kind == "hyp":
        return _task_hyp(task[1])
    if kind == "sweep":
        return _task_sweep(task[1])
    if kind == "machine":
        return _task_machine(task[1])
    raise HarnessError(kind)


def fuzz_cases(target, tier, shard, seed, runs):
    """Runs a coverage-guided atheris campaign (vf.fuzz_target) in a subprocess on a fresh corpus
    directory and returns the inputs it kept (corpus + crash artifacts) as strings.  The caller
    re-judges them through its normal check; an unavailable atheris yields no inputs."""
    import shutil
    import subprocess
    base = os.path.join(os.environ.get("VERIF_OUT_DIR") or os.path.join(VERIF_DIR, "out"),
                        "fuzz", f"{target}-{tier}-{seed}-{shard}")
    shutil.rmtree(base, ignore_errors=True)
    corpus, art = os.path.join(base, "corpus"), os.path.join(base, "artifacts")
    env = dict(os.environ)
    deps = os.path.join(VERIF_DIR, ".deps")
    env["PYTHONPATH"] = deps + (os.pathsep + env["PYTHONPATH"] if env.get("PYTHONPATH") else "")
    try:
        subprocess.run([sys.executable, "-m", "vf.fuzz_target", target, corpus, art, str(runs),
                        str(seed * 100 + shard + 1)], cwd=VERIF_DIR, env=env, capture_output=True,
                       timeout=3600)
    except Exception:  # noqa
        pass
    out = []
    for d in (art, corpus):
        if os.path.isdir(d):
            for fn in sorted(os.listdir(d)):
                with open(os.path.join(d, fn), "rb") as f:
                    out.append(f.read())
    shutil.rmtree(base, ignore_errors=True)
    return out


def run_case(prop_id, sub_name, case, tier="quick", open_ids=()):
    """Evaluate one stored case without Hypothesis.  Returns (ok, message, rec)."""
    mod = load_prop(prop_id)
    subs = {s.name: s for s in mod.subchecks(tier)}
    if sub_name not in subs:
        raise HarnessError(f"{prop_id}: no subcheck {sub_name!r}")
    rec = Recorder(open_ids)
    case = norm(case)
    rec.begin(case)
    try:
        guarded(subs[sub_name].check, case, rec)
    except Violation as v:
        rec.end(False)
        return False, str(v), rec
    rec.end(True)
    return True, "", rec


def _write_violation(prop_id, sub_name, failure):
    d = os.path.join(os.environ.get("VERIF_OUT_DIR") or os.path.join(VERIF_DIR, "out"),
                     "violations", prop_id)
    os.makedirs(d, exist_ok=True)
    body = dict(property=prop_id, subcheck=sub_name, case=failure["case"],
                message=failure["message"])
    s = json.dumps(body, sort_keys=True, indent=1, ensure_ascii=True)
    h = hashlib.sha1(s.encode()).hexdigest()[:12]
    path = os.path.join(d, f"{sub_name}-{h}.json")
    with open(path, "w") as f:
        f.write(s + "\n")
    return path


def _shorten(x, limit=1500):
    s = json.dumps(x, ensure_ascii=True)
    if len(s) <= limit:
        return x
    return {"truncated_json": s[:limit] + "..."}


def run_property(prop_id, tier="quick", seed=1, only_sub=None, scale=1.0, procs=None):
    global _STOP
    t0 = time.time()
    mod = load_prop(prop_id)
    subs = mod.subchecks(tier)
    if only_sub:
        subs = [s for s in subs if s.name in only_sub]
    ti = 0 if tier == "quick" else 1
    known = findings_mod.load()
    open_entries = [e for e in known if e["state"] == "open" and e["property"] == prop_id]
    open_ids = sorted(e["id"] for e in open_entries)
    violations = []   # (sub, failure)
    errors = []
    lines = []

    # 1. replay tier: committed regression inputs must pass
    replay_dir = os.path.join(VERIF_DIR, "replays", prop_id)
    n_replays = 0
    if os.path.isdir(replay_dir):
        for fn in sorted(os.listdir(replay_dir)):
            if not fn.endswith(".json"):
                continue
            with open(os.path.join(replay_dir, fn)) as f:
                r = json.load(f)
            if only_sub and r["subcheck"] not in only_sub:
                continue
            n_replays += 1
            try:
                ok, msg, _ = run_case(prop_id, r["subcheck"], r["case"], tier, open_ids)
            except Exception:  # noqa
                errors.append(f"replay {fn}: " + traceback.format_exc())
                continue
            if not ok:
                path = os.path.join("replays", prop_id, fn)
                violations.append((r["subcheck"], dict(case=r["case"], message=msg), path))

    # 2. witnesses of open known findings
    known_lines = []
    for e in open_entries:
        wpath = os.path.join(VERIF_DIR, e["witness"])
        try:
            with open(wpath) as f:
                w = json.load(f)
            # evaluated with the exclusion lifted, so the witness is really judged
            ok, msg, _ = run_case(prop_id, w["subcheck"], w["case"], tier, ())
        except Exception:  # noqa
            errors.append(f"witness {e['id']}: " + traceback.format_exc())
            continue
        if not ok:
            known_lines.append(f"KNOWN-FINDING: property={prop_id} id={e['id']} {e['text']}")
        else:
            known_lines.append(f"NOTE: property={prop_id} known finding {e['id']} no longer "
                               f"reproduces on this tree (witness passes)")

    # 3. campaigns
    tasks = []
    for s in subs:
        if s.strategy is not None or s.machine is not None:
            n = max(1, int(s.examples[ti] * scale))
            shards = max(1, min(s.max_shards, n // max(1, s.min_per_shard)))
            per = int(math.ceil(n / shards))
            for k in range(shards):
                sd = seed * 100000 + _salt(s.name) * 100 + k
                kind = "hyp" if s.strategy is not None else "machine"
                tasks.append((kind, (prop_id, s.name, tier, sd, per, open_ids)))
        if s.chunks is not None:
            for ch in s.chunks(tier):
                tasks.append(("sweep", (prop_id, s.name, tier, ch, open_ids)))

    results = []
    ctx = mp.get_context("fork")
    _STOP = ctx.Event()
    nproc = procs or min(16, os.cpu_count() or 1)
    if tasks:
        if nproc == 1:
            for t in tasks:
                results.append(_dispatch(t))
        else:
            with ctx.Pool(min(nproc, len(tasks))) as pool:
                for r in pool.imap_unordered(_dispatch, tasks, chunksize=1):
                    results.append(r)

    per_sub = {}
    all_nt = set()
    labels = Counter()
    excluded = Counter()
    samples = []
    truncated = False
    evaluations = n_replays
    for r in results:
        ps = per_sub.setdefault(r["sub"], dict(evaluations=0, distinct_nontrivial=set(),
                                               shards=0, wall_s=0.0))
        ps["evaluations"] += r["evaluations"]
        ps["distinct_nontrivial"].update(r["nontrivial"])
        ps["shards"] += 1
        ps["wall_s"] = round(ps["wall_s"] + r["wall"], 2)
        evaluations += r["evaluations"]
        all_nt.update((r["sub"], h) for h in r["nontrivial"])
        labels.update({f"{r['sub']}:{k}": v for k, v in r["labels"].items()})
        excluded.update(r["excluded"])
        truncated = truncated or r["truncated"]
        for smp in r["samples"]:
            if sum(1 for x in samples if x["subcheck"] == r["sub"]) < 2 and len(samples) < 12:
                samples.append(dict(subcheck=r["sub"], case=_shorten(smp)))
        if r["error"]:
            errors.append(f"{r['sub']}: {r['error']}")
        if r["failure"] and r["failure"].get("case") is not None:
            path = _write_violation(prop_id, r["sub"], r["failure"])
            violations.append((r["sub"], r["failure"], os.path.relpath(path, VERIF_DIR)
                               if path.startswith(VERIF_DIR + os.sep) else path))
    for k in per_sub:
        per_sub[k]["distinct_nontrivial"] = len(per_sub[k]["distinct_nontrivial"])

    sweeps_done = all(not r.get("aborted") for r in results if r["kind"] == "sweep")
    exhaustive_subs = [s.name for s in subs if s.exhaustive and s.chunks is not None]
    wall = time.time() - t0
    if not samples:
        samples = [dict(note="no non-trivial case was generated")]
    evidence = dict(
        property_id=prop_id, tier=tier, seed=seed, level="exploration",
        coverage=dict(
            evaluations=evaluations,
            distinct_nontrivial=len(all_nt),
            rule=mod.RULE,
            samples=samples,
            exhaustive=False,
            exhaustive_subchecks=exhaustive_subs if sweeps_done and not violations else [],
            per_subcheck=per_sub,
            labels=dict(sorted(labels.items())),
            excluded_known=dict(excluded),
            replayed_regression_inputs=n_replays,
            known_findings_open=open_ids,
            truncated_by_wall_budget=truncated,
        ),
        assumptions=list(getattr(mod, "ASSUMPTIONS", [])),
        wall_s=round(wall, 2),
        violations=len(violations),
    )
    evdir = os.environ.get("VERIF_EVIDENCE_DIR") or os.path.join(VERIF_DIR, "evidence")
    os.makedirs(evdir, exist_ok=True)
    with open(os.path.join(evdir, f"{prop_id}.json"), "w") as f:
        json.dump(evidence, f, indent=1, sort_keys=True, ensure_ascii=True)
        f.write("\n")

    for ln in known_lines:
        print(ln)
    print(f"{prop_id} tier={tier} seed={seed}: {evaluations} cases, "
          f"{len(all_nt)} distinct non-trivial, {sum(excluded.values())} excluded (known), "
          f"{wall:.1f}s" + (" [truncated by wall budget]" if truncated else ""))
    for k, v in sorted(per_sub.items()):
        print(f"  {k}: {v['evaluations']} cases, {v['distinct_nontrivial']} non-trivial, "
              f"{v['shards']} shards, {v['wall_s']}s cpu")
    if errors:
        for e in errors:
            print("HARNESS-ERROR:", e, file=sys.stderr)
        return 2
    if violations:
        seen = set()
        for sub_name, failure, path in violations:
            key = (sub_name, failure["message"][:60])
            if path in seen or key in seen or len(seen) >= 12:
                continue
            seen.add(path)
            seen.add(key)
            print(f"VIOLATION property={prop_id} replay={path}")
            print(f"  subcheck={sub_name}: {failure['message'][:600]}")
        return 1
    return 0


def replay_file(prop_id, path, tier="quick"):
    with open(path) as f:
        r = json.load(f)
    if r.get("property") != prop_id:
        raise HarnessError(f"{path} is a replay for {r.get('property')}, not {prop_id}")
    ok, msg, _ = run_case(prop_id, r["subcheck"], r["case"], tier, ())
    if ok:
        print(f"{prop_id}: replay {path} passes")
        return 0
    print(f"VIOLATION property={prop_id} replay={path}")
    print(f"  subcheck={r['subcheck']}: {msg[:2000]}")
    return 1
