"""C02 - writing preserves every cue's start and end instant."""
import re

from hypothesis import strategies as st

from .. import gen, model
from ..ref import parsers as P
from ..runner import Sub, Violation, must, require

from pycaption import (DFXPWriter, MicroDVDWriter, SAMIWriter, SCCReader, SRTWriter,
                       WebVTTWriter)
from pycaption.dfxp.extras import LegacyDFXPWriter, SinglePositioningDFXPWriter

PROPERTY = "C02"
RULE = ("caption sets of 1-2 languages x 1-6 sorted, non-overlapping captions (TEXT/BREAK nodes, "
        "no layouts) with boundary-biased integer-microsecond instants in [0,24h) or the float "
        "instants SCCReader returns for generated timecodes, runs of 1-3 identical timespans; "
        "every writer (SRT, WebVTT+lang, DFXP+force - the code also spelled in another case, which names no language of the set -, legacy, single-position, SAMI, MicroDVD) "
        "with generated options; output parsed by the independent parser of the format under a "
        "strict lexical pattern. (ms-sweep) every millisecond of [0,2min) (thorough [0,2h)) and "
        "+-2s around each hour boundary through SRT/WebVTT/DFXP. Non-trivial: some instant >= 1 "
        "minute, or not a whole millisecond, or a run of identical timespans, or a float time. "
        'In a quarter of the cases the writer object has written another set before; for '
        'every writer except SAMI captions may also be shuffled and overlapping. '
        "One of two languages may be empty; a caption may be followed by a neighbour whose times "
        "differ only below the millisecond (same stamps, still a cue of its own: only captions "
        "with identical times may merge); in a quarter of the cases the Caption objects have a "
        "past (they held other times and were formatted / printed / written before). ")
ASSUMPTIONS = [
    "float (SCC-reader) instants within 1 us of a millisecond/frame boundary are not judged "
    "(timedelta rounds to the nearest microsecond before the writers truncate)",
    "captions are sorted and non-overlapping within a language (SAMI cannot express overlap)",
    "merging of identical consecutive timespans is allowed for every writer where the property "
    "allows it (SRT, legacy, single-position): cue sequences are compared after collapsing runs",
]

WRITERS = ["srt", "webvtt", "dfxp", "dfxp-legacy", "dfxp-single", "sami", "microdvd"]
MERGING = {"srt", "dfxp-legacy", "dfxp-single"}


def _mk_writer(name, opts):
    if name == "srt":
        return SRTWriter()
    if name == "webvtt":
        return WebVTTWriter()
    if name == "dfxp":
        return DFXPWriter(relativize=opts.get("relativize", True),
                          fit_to_screen=opts.get("fit", True),
                          write_inline_positioning=opts.get("inline", False))
    if name == "dfxp-legacy":
        return LegacyDFXPWriter()
    if name == "dfxp-single":
        return SinglePositioningDFXPWriter()
    if name == "sami":
        return SAMIWriter(relativize=opts.get("relativize", True), fit_to_screen=opts.get("fit", True))
    if name == "microdvd":
        return MicroDVDWriter()
    raise ValueError(name)


def set_strategy(multi, runs=True):
    @st.composite
    def build(draw):
        nl = draw(st.integers(1, 2)) if multi else 1
        langs = []
        for li in range(nl):
            spans = draw(gen.sorted_spans(1, 5, gen.DAY))
            cues = []
            for a, b in spans:
                run = draw(st.sampled_from([1, 1, 1, 2, 3])) if runs else 1
                for r in range(run):
                    nodes = [{"t": f"t{len(cues)}"}]
                    if draw(st.booleans()):
                        nodes += [{"br": 1}, {"t": "x"}]
                    cues.append({"start": a, "end": b, "nodes": nodes, "style": {}, "layout": None})
                if runs and draw(st.integers(0, 5)) == 0:
                    # a neighbour whose times differ, but only below the millisecond: it is
                    # written with the same stamps and stays a cue of its own
                    a2 = a - a % 1000 + draw(st.integers(0, 999))
                    b2 = max(a2, b - b % 1000 + draw(st.integers(0, 999)))
                    if (a2, b2) != (a, b) and a2 >= a:
                        cues.append({"start": a2, "end": b2, "nodes": [{"t": f"n{len(cues)}"}], "style": {},
                                     "layout": None})
            if not runs and draw(st.integers(0, 3)) == 0:
                # (SAMI shape) a cue ends and the next one starts inside the same millisecond,
                # at different microseconds
                for a_, b_ in zip(cues, cues[1:]):
                    if draw(st.booleans()) and a_["start"] < b_["start"] - 2000:
                        ms0 = b_["start"] - b_["start"] % 1000
                        if ms0 > a_["start"]:
                            b_["start"] = ms0 + draw(st.integers(0, 999))
                            b_["end"] = max(b_["end"], b_["start"])
                            a_["end"] = ms0 + draw(st.integers(0, b_["start"] - ms0))
            langs.append({"code": ["en-US", "fr-FR"][li], "layout": None, "cues": cues[:7]})
        if nl == 2 and draw(st.integers(0, 4)) == 0:
            # one of two languages has no captions
            langs[draw(st.integers(0, 1))]["cues"] = []
        return {"langs": langs, "styles": {}, "layout": None}
    return build()


def case_strategy(tier):
    @st.composite
    def build(draw):
        w = draw(st.sampled_from(WRITERS))
        multi = w in ("webvtt", "dfxp", "dfxp-legacy", "dfxp-single", "sami")
        # SAMI: several P of one class in one SYNC are displayed together, so a run of
        # identical timespans has no per-caption reading there; runs are not generated for it
        s = draw(set_strategy(multi, runs=(w != "sami")))
        opts = {"relativize": draw(st.booleans()), "fit": draw(st.booleans()),
                "inline": draw(st.booleans())}
        codes = [l["code"] for l in s["langs"]]
        pick = draw(st.sampled_from([None] + codes))
        if w != "sami" and draw(st.integers(0, 3)) == 0:
            # the domain does not require sorted, non-overlapping captions (SAMI cannot express
            # overlap, so it keeps the sorted shape): shuffle, and stretch one caption over others
            for l in s["langs"]:
                l["cues"] = draw(st.permutations(l["cues"]))
                if l["cues"] and draw(st.booleans()):
                    k = draw(st.integers(0, len(l["cues"]) - 1))
                    l["cues"][k] = dict(l["cues"][k], end=min(gen.DAY - 1, l["cues"][k]["end"] + draw(
                        st.sampled_from([gen.SEC, gen.MIN, gen.HOUR, 2 * gen.HOUR]))))
        if len(s["langs"]) == 2 and s["langs"][0]["cues"] and draw(st.integers(0, 5)) == 0:
            # the second language is a copy of the first (then made of the same Caption objects)
            import copy
            s["langs"][1]["cues"] = copy.deepcopy(s["langs"][0]["cues"])
            alias = True
        else:
            alias = False
        case = {"writer": w, "set": s, "opts": opts, "lang": pick, "alias_langs": alias}
        # (SAMI sets keep sorted, non-overlapping captions in every language: with overlapping
        # captions the SYNC blocks of the document cannot be in time order, and what the other
        # language's paragraphs "in order" means is no longer defined - see DESIGN section 8)
        if pick and w in ("dfxp", "dfxp-single") and draw(st.integers(0, 3)) == 0:
            # the option value spells the language code in another case
            case["lang_spelling"] = draw(st.sampled_from(["lower", "upper"]))
        if draw(st.integers(0, 3)) == 0:
            # the writer object has been used before, on another set
            case["prev"] = draw(set_strategy(multi))
        if draw(st.integers(0, 3)) == 0:
            # the Caption objects have a past: they held other times, were formatted / printed /
            # written, and were then given their present times
            case["caption_past"] = draw(st.sampled_from(["format", "repr", "written"]))
            case["past_shift"] = draw(st.sampled_from([1000, 2500000, 3600000000, -1000]))
        if draw(st.integers(0, 3)) == 0:
            # float instants as produced by SCCReader from generated timecodes
            n = max(1, sum(len(l["cues"]) for l in s["langs"]))
            tcs = []
            t = draw(st.integers(0, 3600 * 30))
            for _ in range(n):
                d1 = draw(st.integers(30, 300))
                d2 = draw(st.integers(20, 200))
                tcs.append([t + d1, t + d1 + d2])
                t = t + d1 + d2
            case["scc"] = {"drop": draw(st.booleans()), "frames": tcs}
        return case
    return build()


def _tc(frames, drop):
    f = frames % 30
    s = frames // 30
    return "%02d:%02d:%02d%s%02d" % (s // 3600, (s // 60) % 60, s % 60, ";" if drop else ":", f)


def scc_float_times(spec):
    """Times that SCCReader really returns for generated timecodes: [(start, end)]."""
    lines = ["Scenarist_SCC V1.0", ""]
    for a, b in spec["frames"]:
        lines.append(f"{_tc(a, spec['drop'])}\t9420 9420 94ae 94ae 9470 9470 c8e5 ecec ef80 942f 942f")
        lines.append("")
        lines.append(f"{_tc(b, spec['drop'])}\t942c 942c")
        lines.append("")
    cs = SCCReader().read("\n".join(lines))
    caps = cs.get_captions(cs.get_languages()[0])
    return [(c.start, c.end) for c in caps]


def _floor_units(t, unit, is_float):
    """(value, judged?)  floor(t/unit); float inputs within 1us of a boundary are not judged."""
    if is_float:
        r = t % unit
        if r < 1.0 or unit - r < 1.0:
            return None
        return int(t // unit)
    return t // unit


def _collapse(seq):
    out = []
    for x in seq:
        if not out or out[-1] != x:
            out.append(x)
    return out


_SRT_STRICT = re.compile(r"^\d{2}:[0-5]\d:[0-5]\d,\d{3}$")
_VTT_STRICT = re.compile(r"^(\d{2}:)?[0-5]\d:[0-5]\d\.\d{3}$")
_DFXP_STRICT = re.compile(r"^\d{2}:[0-5]\d:[0-5]\d\.\d{3}$")


def check_case(case, rec):
    w = case["writer"]
    m = case["set"]
    is_float = "scc" in case
    if is_float:
        ft = scc_float_times(case["scc"])   # input generation; a failure here is a harness error
        k = 0
        for l in m["langs"]:
            for i, c in enumerate(l["cues"]):
                if k >= len(ft):
                    l["cues"] = l["cues"][:i]
                    break
                c["start"], c["end"] = ft[k]
                k += 1
        m["langs"] = [l for l in m["langs"] if l["cues"]]
        if not m["langs"]:
            return
        rec.label("float-times")
    cs = model.to_pycaption(m)
    if case.get("alias_langs") and len(m["langs"]) == 2 and \
            [(c["start"], c["end"]) for c in m["langs"][0]["cues"]] == [(c["start"], c["end"]) for c in m["langs"][1]["cues"]]:
        # public list operations give caption sets in which one Caption object occurs twice
        from pycaption import CaptionList
        cs.set_captions(m["langs"][1]["code"], CaptionList(list(cs.get_captions(m["langs"][0]["code"]))))
        rec.label("caption-objects-shared-between-languages")
    if case.get("caption_past"):
        sh = case["past_shift"]
        for lang_ in cs.get_languages():
            for c in cs.get_captions(lang_):
                c.start, c.end = max(0, c.start + sh), max(0, c.end + sh)
        try:
            if case["caption_past"] == "written":
                for wn in ("srt", "dfxp", "webvtt"):
                    _mk_writer(wn, case["opts"]).write(cs)
            else:
                for lang_ in cs.get_languages():
                    for c in cs.get_captions(lang_):
                        (c.format_start(), c.format_end()) if case["caption_past"] == "format" else repr(c)
        except Exception:  # noqa  (the past is not what is being judged)
            pass
        k_ = {l["code"]: l["cues"] for l in m["langs"]}
        for lang_ in cs.get_languages():
            for c, orig in zip(cs.get_captions(lang_), k_[lang_]):
                c.start, c.end = orig["start"], orig["end"]
        rec.label("captions-with-a-past")
    writer = _mk_writer(w, case["opts"])
    lang = case["lang"]
    codes = [l["code"] for l in m["langs"]]
    if lang not in codes:
        lang = None
    if case.get("prev"):
        try:
            writer.write(model.to_pycaption(case["prev"]))
        except Exception:  # noqa  (judged when it is the set under test)
            pass
        rec.label("reused-writer")
    with must(f"{type(writer).__name__}.write"):
        if w == "webvtt":
            out = writer.write(cs, lang=lang) if lang else writer.write(cs)
        elif w.startswith("dfxp"):
            force = lang
            if lang and case.get("lang_spelling"):
                v = lang.lower() if case["lang_spelling"] == "lower" else lang.upper()
                if v not in codes:
                    force = v
                    rec.label("force-in-other-case")
            out = writer.write(cs, force=force) if force else writer.write(cs)
        else:
            out = writer.write(cs)

    # expected per language: [(start_units, end_units)] (None when not judged)
    unit = 40000 if w == "microdvd" else 1000
    langs_written = m["langs"]
    if w == "webvtt":
        langs_written = [l for l in m["langs"] if l["code"] == (lang or codes[0])]
    elif w.startswith("dfxp") and lang:
        langs_written = [l for l in m["langs"] if l["code"] == lang]
        if force != lang:
            # a code that names no language of the set as spelled: every language is written
            # (a case-insensitive match that writes just that language, completely, is accepted)
            try:
                n_div = len(P.parse_dfxp(out)["divs"])
            except P.RefParseError as e:
                raise Violation(f"{w} output is not well-formed: {e}")
            if n_div != 1 or len(m["langs"]) == 1:
                langs_written = m["langs"]
    exp = []
    for l in langs_written:
        exp.append([(_floor_units(c["start"], unit, is_float), _floor_units(c["end"], unit, is_float))
                    for c in l["cues"]])

    for l in langs_written:
        l["_unjudged"] = l["code"] in (case.get("unjudged_langs") or ())
    try:
        got = _extract(w, out, langs_written)
    except P.RefParseError as e:
        raise Violation(f"{w} output is not well-formed: {e}")

    for li, (e_seq, g_seq) in enumerate(zip(exp, got)):
        if langs_written[li]["code"] in (case.get("unjudged_langs") or ()):
            rec.label("language-not-judged")
            continue
        if w in MERGING and not is_float:
            # only captions with IDENTICAL (start, end) may be merged into one cue
            cues_l = langs_written[li]["cues"]
            e_runs = [e for k, e in enumerate(e_seq)
                      if k == 0 or (cues_l[k]["start"], cues_l[k]["end"]) != (cues_l[k - 1]["start"], cues_l[k - 1]["end"])]
            ok_len = len(e_runs) <= len(g_seq) <= len(e_seq)
            if len(g_seq) == len(e_seq):
                e_cmp, g_cmp = e_seq, g_seq
            elif len(g_seq) == len(e_runs):
                e_cmp, g_cmp = e_runs, g_seq
            else:
                e_cmp, g_cmp = _collapse(e_seq), _collapse(g_seq)
        else:
            # (float instants come from distinct SCC timecodes: nothing can be merged)
            ok_len = len(g_seq) == len(e_seq)
            e_cmp, g_cmp = e_seq, g_seq
        require(ok_len, lambda: f"{w}: {len(g_seq)} cues written for {len(e_seq)} captions "
                                f"(language #{li}): {out[:300]!r}")
        require(len(e_cmp) == len(g_cmp), lambda: f"{w}: cue sequence {g_cmp} vs expected {e_cmp}")
        for (es, ee), (gs, ge) in zip(e_cmp, g_cmp):
            if es is not None:
                require(gs == es, lambda: f"{w}: written start denotes {gs}, caption start is "
                                          f"{es} (x{unit}us); expected sequence {e_cmp}, got {g_cmp}")
            if ee is not None and ge is not None:
                require(ge == ee, lambda: f"{w}: written end denotes {ge}, caption end is {ee} "
                                          f"(x{unit}us); expected sequence {e_cmp}, got {g_cmp}")
    require(len(got) == len(exp), lambda: f"{w}: {len(got)} language blocks written, expected {len(exp)}")

    all_t = [t for l in langs_written for c in l["cues"] for t in (c["start"], c["end"])]
    runs = any(len(_collapse(e)) < len(e) for e in exp)
    rec.nontrivial(is_float or runs or any(t >= gen.MIN or t % 1000 for t in all_t))
    rec.label("writer:" + w)
    if runs:
        rec.label("has-run")
    if len(m["langs"]) > 1:
        rec.label("multi-language")


def _extract(w, out, langs_written):
    """Per written language: [(start_units, end_units|None)] as an independent consumer sees it."""
    if w == "srt":
        cues = P.parse_srt(out)
        for c in cues:
            for tok in c["raw"]:
                if not _SRT_STRICT.match(tok.strip()):
                    raise Violation(f"srt: timestamp {tok!r} is not HH:MM:SS,mmm")
        idx = [c["index"] for c in cues]
        require(idx == list(range(1, len(cues) + 1)), lambda: f"srt: cue numbers {idx}")
        return [[(c["start"] // 1000, c["end"] // 1000) for c in cues]]
    if w == "webvtt":
        cues = P.parse_webvtt(out)
        for c in cues:
            for tok in c["raw"]:
                if not _VTT_STRICT.match(tok):
                    raise Violation(f"webvtt: timestamp {tok!r} is not [HH:]MM:SS.mmm")
        return [[(c["start"] // 1000, c["end"] // 1000) for c in cues]]
    if w.startswith("dfxp"):
        doc = P.parse_dfxp(out)
        res = []
        for d in doc["divs"]:
            seq = []
            for p in d["ps"]:
                if p["begin"] is None or p["end"] is None:
                    raise Violation(f"{w}: <p> without begin/end: {p['attrs']}")
                for tok in (p["begin"], p["end"]):
                    if not _DFXP_STRICT.match(tok):
                        raise Violation(f"{w}: timestamp {tok!r} is not HH:MM:SS.mmm")
                seq.append((P.ttml_clock_ms_strict(p["begin"]) // 1000,
                            P.ttml_clock_ms_strict(p["end"]) // 1000))
            res.append(seq)
        return res
    if w == "microdvd":
        cues = P.parse_microdvd(out)
        return [[(c["start_frame"], c["end_frame"]) for c in cues]]
    if w == "sami":
        doc = P.parse_sami(out)
        res = []
        for l in langs_written:
            cls = l["code"].lower()
            if l.get("_unjudged"):
                res.append([])
                continue
            events = []
            for sy in doc["syncs"]:
                if sy["start"] is None or not re.fullmatch(r"\d+", sy["start"]):
                    raise Violation(f"sami: sync start {sy['start']!r} is not an integer "
                                    f"millisecond count")
                for p in sy["ps"]:
                    pc = (p["attrs"].get("class") or "").lower()
                    if pc == cls:
                        txt = "".join(p["lines"]).replace(" ", " ").strip()
                        events.append((int(sy["start"]), txt == ""))
            seq = []
            for i, (t, blank) in enumerate(events):
                if blank:
                    if i + 1 < len(events) and not events[i + 1][1] and events[i + 1][0] == t:
                        raise Violation(f"sami: blank sync of {l['code']} at {t} ms although the language's "
                                        f"next cue starts at that millisecond: {out[:600]!r}")
                    continue
                end = events[i + 1][0] if i + 1 < len(events) else None
                seq.append((t, end))
            # the end of a language's last cue must not be written
            n_cues = len(l["cues"])
            if len(seq) == n_cues and seq and seq[-1][1] is not None:
                raise Violation(f"sami: end of the last cue of {l['code']} is written "
                                f"(blank sync at {seq[-1][1]})")
            res.append(seq)
        # expected ends: None for the last cue
        return res
    raise ValueError(w)


# ------------------------------------------------------------------ millisecond sweep

def ms_chunks(tier):
    chunks = []
    span = 120000 if tier == "quick" else 7200000
    step = 5000
    for w in ("srt", "webvtt", "dfxp"):
        for lo in range(0, span, step):
            chunks.append({"writer": w, "lo": lo, "hi": lo + step})
        for h in range(1, 24):
            chunks.append({"writer": w, "lo": h * 3600000 - 2000, "hi": h * 3600000 + 2000})
        chunks.append({"writer": w, "lo": 86400000 - 4000, "hi": 86400000 - 1})
    return chunks


def ms_expand(chunk):
    yield chunk


def check_ms(case, rec):
    w = case["writer"]
    cues = []
    for ms in range(case["lo"], case["hi"]):
        a = ms * 1000 + (ms * 7) % 1000
        cues.append({"start": a, "end": min(a + 777777 + ms % 3, gen.DAY - 1), "nodes": [{"t": "x"}],
                     "style": {}, "layout": None})
    m = {"langs": [{"code": "en-US", "layout": None, "cues": cues}], "styles": {}, "layout": None}
    cs = model.to_pycaption(m)
    writer = _mk_writer(w, {})
    with must(f"{type(writer).__name__}.write"):
        out = writer.write(cs)
    try:
        got = _extract(w, out, m["langs"])[0]
    except P.RefParseError as e:
        raise Violation(f"{w} output is not well-formed: {e}")
    require(len(got) == len(cues), lambda: f"{w}: {len(got)} cues for {len(cues)} captions")
    for c, (gs, ge) in zip(cues, got):
        require(gs == c["start"] // 1000 and ge == c["end"] // 1000,
                lambda: f"{w}: caption ({c['start']}, {c['end']}) us written as ({gs}, {ge}) ms")
    rec.nontrivial(True)
    rec.label("ms-batch")


def subchecks(tier):
    return [
        Sub("writers", check_case, strategy=case_strategy, examples=(12000, 300000), min_per_shard=300),
        Sub("ms-sweep", check_ms, chunks=ms_chunks, expand=ms_expand, exhaustive=True),
    ]
