"""C16 - roll-up and paint-on SCC text is conserved and ordered."""
from hypothesis import strategies as st

from ..ref import cea608 as R
from ..ref import sccprog as SP
from ..runner import Sub, Violation, must, require

from pycaption import SCCReader

PROPERTY = "C16"
RULE = ("roll-up streams: RU2 / RU3 / RU4 sent once or repeated on every line, CR, PAC on the "
        "base row 15 or another row with any indent (fixed or varying per line), 1-8 rows of "
        "1-32 characters including special characters and spaces, control codes single or "
        "doubled, ';' or ':' timecodes, gaps of >= 3 frames between lines, first line at "
        "timecode zero or later; paint-on streams: RDC + PAC + text, 1-3 rows per burst on "
        "adjacent or non-adjacent rows, 1-4 bursts. simulate_roll_up left at its default. "
        "Oracle: transmitted displayable characters (whitespace removed) == concatenated caption "
        "text (whitespace removed); every row is a contiguous run inside one caption; captions "
        "grouped by start time: starts strictly increasing between groups, start < end, each "
        "group ends exactly when the next begins. Non-trivial: >= 3 rows. "
        'The SCCReader object is fresh or has a past (see C05). '
        "Lines are written in lexical variants too: 1-3 blanks between code words, blanks for "
        "the tab after the timecode, blanks / a tab after the last word; a line may be spread over "
        "frame-contiguous lines at any word. Rows also carry extended characters (stand-in + code), mid-row codes and leading blanks. ")
ASSUMPTIONS = [
    "captions that share a start time (rows of one paint-on burst on non-adjacent screen rows) "
    "are one display state: adjacency of end/start is judged between groups of equal start",
    "rows contain at least one visible character and no trailing space; one or two leading blanks may open a row and must come back (the reader itself strips blanks at line ends, so only those are not judged)",
]

WORDS = ["hello", "world", "a", "I", "OK", "rolling", "up", "captions", "123", "don't", "x-ray", "Mr."]


def row_strategy():
    @st.composite
    def build(draw):
        parts = []
        n = 0
        for _ in range(draw(st.integers(1, 5))):
            kind = draw(st.integers(0, 5))
            if kind == 0 and draw(st.booleans()):
                # an extended character: its basic stand-in, then the two-byte code that replaces it
                p = ["ex", draw(st.sampled_from(EXT_WORDS)), draw(st.sampled_from("AEOUaeiou"))]
                ln = 1
            elif kind == 1 and draw(st.integers(0, 2)) == 0:
                # a mid-row code (italics on / plain): occupies one cell, displayed as a blank
                p = ["mid", draw(st.booleans())]
                ln = 1
            elif kind == 0:
                p = ["sp", draw(st.sampled_from([0, 1, 2, 3, 4, 5, 6, 7, 8, 10, 11, 12, 13, 14, 15]))]
                ln = 1
            else:
                w = draw(st.sampled_from(WORDS))
                p = ["w", w]
                ln = len(w)
            sep = 1 if parts else 0
            if n + sep + ln > 32:
                break
            parts.append(p)
            n += sep + ln
        if not any(p[0] != "mid" for p in parts):
            parts = parts[:1] + [["w", "ok"]]
            n = sum(len(p[1]) if p[0] == "w" else 1 for p in parts) + len(parts) - 1
        fill = draw(st.sampled_from([None, None, None, 32, 31, 30]))
        if any(p[0] == "mid" for p in parts):
            fill = None      # (rows with a mid-row code are not padded to the last column)
        elif parts[0][0] == "w" and n <= 28 and draw(st.integers(0, 5)) == 0:
            # blanks are displayable characters too: a row may begin with one or two of them
            parts[0] = ["w", " " * draw(st.integers(1, 2)) + parts[0][1]]
            n += len(parts[0][1]) - len(parts[0][1].lstrip())
        if fill and n + 2 <= fill:
            # pad the row to exactly `fill` columns (rows of 31 / 32 columns are legal)
            parts.append(["w", ("x" * 40)[:fill - n - 1]])
        return parts
    return build()


def stream_strategy(tier):
    @st.composite
    def build(draw):
        mode = draw(st.sampled_from(["roll", "roll", "paint"]))
        if mode == "roll":
            nrows = draw(st.integers(1, 8))
            base = draw(st.sampled_from([15, 15, 15, 14, 12, 8, 3]))
            vary = draw(st.sampled_from([0, 0, 0, 1, 2]))   # fixed base row / random rows / one row lower each time
            rows = []
            for i in range(nrows):
                rows.append({"parts": draw(row_strategy()),
                             "row": (draw(st.integers(2, 15)) if vary != 2 else min(15, 10 + i)) if vary else base,
                             "indent": draw(st.sampled_from([0, 0, 4, 8, 28])),
                             "gap": draw(st.integers(3, 40))})
            return {"mode": "roll", "ru": draw(st.sampled_from(["RU2", "RU3", "RU4"])),
                    "ru_each": draw(st.booleans()), "rows": rows, "drop": draw(st.booleans()),
                    "double": draw(st.booleans()), "t0": draw(st.sampled_from([0, 0, 1, 30, 108000])),
                    "close": draw(st.booleans()), "reuse": draw(SP.reuse_strategy()),
                    "spacing": draw(SP.spacing_strategy()), "cuts": draw(SP.cuts_strategy())}
        bursts = []
        for b in range(draw(st.integers(1, 4))):
            n = draw(st.integers(1, 3))
            adjacent = draw(st.booleans())
            top = draw(st.integers(1, 15 - 4 * n if not adjacent else 15 - n + 1)) if True else 1
            rows = []
            for k in range(n):
                rows.append({"parts": draw(row_strategy()), "row": top + (k if adjacent else 4 * k),
                             "indent": draw(st.sampled_from([0, 4, 8]))})
            bursts.append({"rows": rows, "gap": draw(st.integers(3, 60))})
        return {"mode": "paint", "bursts": bursts, "drop": draw(st.booleans()),
                "double": draw(st.booleans()), "t0": draw(st.sampled_from([0, 0, 1, 108000])),
                "close": draw(st.booleans()), "reuse": draw(SP.reuse_strategy()),
                    "spacing": draw(SP.spacing_strategy()), "cuts": draw(SP.cuts_strategy())}
    return build()


# accented letters of the two extended tables (glyphs without alternative renderings)
EXT_WORDS = sorted(w for w, g in R.EXTENDED.items() if g.isalpha())


def _row_words(parts, d):
    """-> (words, displayed text)"""
    words = []
    text = ""
    pending = ""
    for i, p in enumerate(parts):
        if i:
            pending += " "
            text += " "
        if p[0] == "w":
            pending += p[1]
            text += p[1]
        elif p[0] == "mid":
            if pending:
                words += R.char_words(pending)
                pending = ""
            words += [R.midrow(italic=p[1])] * d
        elif p[0] == "ex":
            pending += p[2]
            words += R.char_words(pending)
            pending = ""
            words += [p[1]] * d
            text += R.EXTENDED[p[1]]
        else:
            if pending:
                words += R.char_words(pending)
                pending = ""
            words += [R.word(0x11, 0x30 + p[1])] * d
            text += R.SPECIAL_GLYPHS[p[1]]
    if pending:
        words += R.char_words(pending)
    return words, text


def build(case):
    d = 2 if case["double"] else 1
    tl = []          # (frame, words)
    t = case["t0"]
    rows_text = []

    def ctrl(name):
        return [R.MISC[name]] * d

    if case["mode"] == "roll":
        for i, r in enumerate(case["rows"]):
            w = []
            if i == 0 or case["ru_each"]:
                w += ctrl(case["ru"])
            w += ctrl("CR") + [R.pac(r["row"], r["indent"])] * d
            ww, text = _row_words(r["parts"], d)
            w += ww
            rows_text.append(text)
            tl.append((t, w))
            t += len(w) + r["gap"]
        if case["close"]:
            tl.append((t, ctrl("CR")))
    else:
        for b in case["bursts"]:
            w = ctrl("RDC")
            for r in b["rows"]:
                w += [R.pac(r["row"], r["indent"])] * d
                ww, text = _row_words(r["parts"], d)
                w += ww
                rows_text.append(text)
            tl.append((t, w))
            t += len(w) + b["gap"]
        if case["close"]:
            tl.append((t, ctrl("RDC")))
    # the same word stream may be laid out over more, frame-contiguous lines
    tl = SP.apply_cuts(tl, case.get("cuts"))
    lines = ["Scenarist_SCC V1.0", ""]
    for f, w in tl:
        lines += [SP.fmt_line(R.timecode(f, case["drop"]), w, case.get("spacing")), ""]
    return "\n".join(lines), rows_text


def _squash(s):
    return "".join(s.split())


def midrow_after_full_row(case):
    """Input shape of the open finding: a row that begins with a mid-row code, sent right after a
    row of 32 columns (SCCReader appends the blank of that code to the previous row's text, which
    then counts 33 characters and is rejected)."""
    if case["mode"] == "roll":
        seq = [case["rows"]]
    else:
        seq = [b["rows"] for b in case["bursts"]]
    flat = [r for rows in seq for r in rows]
    for a, b in zip(flat, flat[1:]):
        if b["parts"] and b["parts"][0][0] == "mid":
            _w, text = _row_words(a["parts"], 1)
            if len(text) + a.get("indent", 0) >= 32 or len(text) >= 32:
                return True
    return False


def check_stream(case, rec):
    if rec.is_open("scc-midrow-at-row-start-pads-previous-row") and midrow_after_full_row(case):
        rec.excluded_known("scc-midrow-at-row-start-pads-previous-row")
        return
    doc, rows = build(case)
    reader = SP.used_reader(case.get("reuse"), doc)
    if case.get("reuse"):
        rec.label("reused-reader:" + case["reuse"][0])
    with must("SCCReader.read"):
        cs = reader.read(doc)
    caps = cs.get_captions(cs.get_languages()[0])
    texts = ["".join(c.get_text_nodes()) for c in caps]
    got = _squash("".join(texts))
    exp = _squash("".join(rows))
    require(got == exp,
            lambda: f"text not conserved: read {got!r}, transmitted {exp!r} (rows {rows}); document: {doc}")
    all_lines = [ln for t in texts for ln in t.split("\n")]
    for r in rows:
        rr = _squash(r)
        require(any(rr in _squash(ln) for ln in all_lines),
                lambda: f"row {r!r} is not kept together on one line of one caption: captions {texts}; document: {doc}")
        lead = len(r) - len(r.lstrip(" "))
        if lead:
            # the blanks a row begins with are transmitted characters as well
            body = r.strip()
            require(any(ln.rstrip().endswith(r.rstrip()) or (" " * lead + body) in ln for ln in all_lines),
                    lambda: f"row {r!r}: its {lead} leading blank(s) did not come back: captions {texts}; document: {doc}")
            rec.label("row-with-leading-blanks")
    groups = []
    for c in caps:
        if groups and groups[-1][0] == c.start:
            require(groups[-1][1] == c.end, lambda: f"captions sharing start {c.start} have different ends: {doc}")
        else:
            groups.append((c.start, c.end))
    for i, (a, b) in enumerate(groups):
        require(a < b, lambda: f"caption group {i}: start {a} is not before end {b}; all {groups}; document: {doc}")
        if i + 1 < len(groups):
            require(groups[i + 1][0] > a, lambda: f"starts not increasing: {groups}; document: {doc}")
            require(b == groups[i + 1][0],
                    lambda: f"caption group {i} ends at {b} but the next begins at {groups[i + 1][0]}; document: {doc}")
    rec.nontrivial(len(rows) >= 3)
    rec.label("mode:" + case["mode"])
    if case.get("t0") == 0:
        rec.label("starts-at-timecode-zero")


def subchecks(tier):
    return [Sub("streams", check_stream, strategy=stream_strategy, examples=(8000, 250000), min_per_shard=300)]
