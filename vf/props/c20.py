"""C20 - format detection is total, consistent and recognises pycaption's own output."""
import itertools
import os

from hypothesis import strategies as st

from .. import REPO, gen, model
from ..runner import Sub, Violation, must, require

import pycaption
from pycaption import (DFXPReader, DFXPWriter, MicroDVDReader, MicroDVDWriter, SAMIReader,
                       SAMIWriter, SCCReader, SCCWriter, SRTReader, SRTWriter, WebVTTReader,
                       WebVTTWriter)
from pycaption.dfxp.extras import LegacyDFXPWriter, SinglePositioningDFXPWriter
from pycaption.exceptions import CaptionReadNoCaptions

PROPERTY = "C20"
RULE = ("cases are strings: (tokens) every sequence of <=4 (thorough <=5) tokens over a 17-token "
        "alphabet of digits, newlines, braces, arrows and format markers, enumerated "
        "exhaustively; (trunc) every prefix and every one-character deletion of one document "
        "per writer and per examples/ file; (text) Hypothesis text mixing markers, digits, line "
        "breaks and printable Unicode, also with byte order marks in front; (own) outputs of all writers on generated caption sets (integer or float times) "
        "whose text avoids the other formats' markers (a line may be cut into adjacent text nodes at any character); (atheris) inputs kept by coverage-guided "
        "libFuzzer campaigns (fresh corpus, oracle inside the target), re-judged here. Non-trivial: the string has at most two "
        "lines, or is a truncated document, or at least one reader's detect() accepts it; for "
        "'own': every case (writer output with metacharacter text). Distinct = distinct JSON. "
        'Own-output sets include cues shorter than a MicroDVD frame early in the file (only '
        'cues wholly inside frame 0 are excluded). ')
ASSUMPTIONS = [
    "documented detection order DFXP, MicroDVD, WebVTT, SAMI, SRT, SCC is hard-coded here",
    "'another format's marker' = the substrings WEBVTT (as written), <sami, </tt> (any case) and a first "
    "line equal to the SCC header; own-output texts avoid them",
]

ORDER = [DFXPReader, MicroDVDReader, WebVTTReader, SAMIReader, SRTReader, SCCReader]

TOKENS = ["1", "23", "0", "\n", "\n\n", " ", "{", "}", "{1}{2}", "-->", "WEBVTT", "<sami",
          "</tt>", "Scenarist_SCC V1.0", "00:00:01,000", "a", "\r\n"]


def oracle_detect(s, rec=None):
    """detect_format must not raise and must return the first accepting reader."""
    with must("detect_format"):
        got = pycaption.detect_format(s)
    expected = None
    for cls in ORDER:
        with must(f"{cls.__name__}().detect"):
            ok = cls().detect(s)
        if ok:
            expected = cls
            break
    require(got is expected,
            lambda: f"detect_format({s[:80]!r}) returned {getattr(got, '__name__', got)}, first "
                    f"accepting reader in documented order is "
                    f"{getattr(expected, '__name__', expected)}")
    return expected


def check_string(case, rec):
    if "huge" in case:
        h = case["huge"]       # kept in compact form: head + unit*n1 + mid + unit*n2 + tail
        s = h["head"] + h["unit"] * h["n1"] + h["mid"] + h["unit"] * h["n2"] + h["tail"]
        rec.label("huge:%dk" % (len(s) // 1000))
    else:
        s = case["s"]
    if s == "":
        try:
            pycaption.detect_format(s)
        except CaptionReadNoCaptions:
            rec.label("empty")
            return
        except Exception as e:  # noqa
            raise Violation(f"detect_format('') raised {type(e).__name__}, not CaptionReadNoCaptions")
        raise Violation("detect_format('') did not raise CaptionReadNoCaptions")
    if rec.is_open("srt-detect-short") and _is_srt_short(s):
        rec.excluded_known("srt-detect-short")
        return
    exp = oracle_detect(s, rec)
    rec.label("detected:" + (exp.__name__ if exp else "None"))
    nl = len(s.splitlines())
    rec.nontrivial(nl <= 2 or exp is not None or case.get("trunc", False))


def _is_srt_short(s):
    lines = s.splitlines()
    return len(lines) == 1 and lines[0].isdigit()


# ------------------------------------------------------------ token sweep

def token_chunks(tier):
    maxlen = 4 if tier == "quick" else 5
    chunks = []
    for n in range(0, maxlen + 1):
        if n <= 2:
            chunks.append({"n": n, "first": None})
        else:
            for i in range(len(TOKENS)):
                chunks.append({"n": n, "first": i})
    return chunks


def token_expand(chunk):
    n = chunk["n"]
    if chunk["first"] is None:
        for combo in itertools.product(TOKENS, repeat=n):
            yield {"s": "".join(combo)}
    else:
        f = TOKENS[chunk["first"]]
        for combo in itertools.product(TOKENS, repeat=n - 1):
            yield {"s": f + "".join(combo)}


# ------------------------------------------------------------ truncations

_SAMPLE_SET = {
    "langs": [{"code": "en-US", "layout": None, "cues": [
        {"start": 1000000, "end": 2500000, "nodes": [{"t": "Hello & <world>"}, {"br": 1},
                                                     {"t": "second line"}],
         "style": {}, "layout": None},
        {"start": 3000000, "end": 4000000, "nodes": [{"t": "12"}], "style": {}, "layout": None},
    ]}], "styles": {}, "layout": None}


def _documents():
    docs = []
    exdir = os.path.join(REPO, "examples")
    for fn in sorted(os.listdir(exdir)):
        with open(os.path.join(exdir, fn), encoding="utf-8") as f:
            docs.append(("examples/" + fn, f.read()))
    for w in (SRTWriter, WebVTTWriter, DFXPWriter, SAMIWriter, MicroDVDWriter, SCCWriter,
              LegacyDFXPWriter, SinglePositioningDFXPWriter):
        docs.append((w.__name__, w().write(model.to_pycaption(_SAMPLE_SET))))
    return docs


def trunc_chunks(tier):
    return [{"doc": i} for i in range(len(_documents()))]


def trunc_expand(chunk):
    name, doc = _documents()[chunk["doc"]]
    limit = 4000
    n = len(doc)
    cuts = range(0, n + 1) if n <= limit else list(range(0, limit // 2)) + list(
        range(n - limit // 2, n + 1))
    for i in cuts:
        yield {"s": doc[:i], "trunc": True, "doc": name}
    for i in (range(n) if n <= limit else range(0, limit)):
        yield {"s": doc[:i] + doc[i + 1:], "trunc": True, "doc": name}
    for i in (range(1, n) if n <= limit else range(1, limit)):
        yield {"s": doc[i:], "trunc": True, "doc": name}


# ------------------------------------------------------------ random text

def text_strategy(tier):
    atoms = st.one_of(
        st.sampled_from(TOKENS + ["WEBVTT\n\n", "<SAMI>", "</TT>", "Scenarist_SCC V1.0\n", "\r",
                                  "\x0b", "\x0c", "\x1c", "\x85", " ", " ", "{0}{0}25", '<?xml version="1.0"?>\n', "<?xml",
                                  "00:00:01.000 --> 00:00:02.000", "１", "²", "٣"]),
        st.text(max_size=5),
        st.text(st.characters(min_codepoint=32, max_codepoint=126), max_size=8),
    )
    short = st.lists(atoms, min_size=0, max_size=8).map(lambda xs: "".join(xs))
    filler = st.sampled_from(["x\n", "12\n", "some words here\n", "1\n00:00:01,000 --> 00:00:02,000\ntext\n\n",
                              "{1}{2}text\n", "\n"])

    @st.composite
    def long_doc(draw):
        # the decisive marker may sit far from the top of a long document
        head = draw(short)
        unit = draw(filler)
        n = draw(st.sampled_from([900, 1000, 1020, 1024, 1030, 1100, 2000, 4100])) // max(1, len(unit)) + 1
        return head + unit * n + draw(short)

    @st.composite
    def huge_doc(draw):
        # hundreds of kilobytes, the decisive marker (if any) in the middle
        unit = draw(filler)
        total = draw(st.sampled_from([70000, 300000, 530000, 600000, 1100000]))
        n = total // (2 * len(unit)) + 1
        return {"huge": {"head": draw(short), "unit": unit, "n1": n, "mid": draw(short), "n2": n,
                         "tail": draw(short)}}

    @st.composite
    def long_first_lines(draw):
        # the deciding token of the first or second line lies thousands of characters in
        # (a zero-padded counter, an indented timing line, a long frame number)
        n = draw(st.sampled_from([4090, 4096, 4100, 5000, 70000]))
        kind = draw(st.sampled_from(["srt-counter", "srt-indent", "mdvd-frame", "mdvd-end", "xml-decl"]))
        tail = draw(short)
        if kind == "srt-counter":
            return "0" * n + "1\n00:00:01,000 --> 00:00:02,000\ntext\n" + tail
        if kind == "srt-indent":
            return "1\n" + " " * n + "00:00:01,000 --> 00:00:02,000\ntext\n" + tail
        if kind == "mdvd-frame":
            return "{" + "0" * n + "1}{25}text\n" + tail
        if kind == "mdvd-end":
            return "{1}{" + "0" * n + "25}text\n" + tail
        # an XML declaration in front of anything
        return '<?xml version="1.0" encoding="utf-8"?>\n' + tail + draw(st.sampled_from(["", "WEBVTT\n", "<sami>", "1\n-->"]))
    @st.composite
    def bom_doc(draw):
        # 1-2 byte order marks (U+FEFF survives decoding with 'utf-8') alone or in front of a
        # complete small document of some format
        doc = draw(st.sampled_from(["", "", "1\n00:00:01,000 --> 00:00:02,000\ntext\n", "{1}{25}text\n",
                                    "Scenarist_SCC V1.0\n\n00:00:01:00\t9420 9420\n", "WEBVTT\n\n",
                                    "<sami><body></body></sami>", '<tt xmlns="http://www.w3.org/ns/ttml"></tt>']))
        return "\ufeff" * draw(st.integers(1, 2)) + doc + draw(short)
    return st.one_of(*([st.one_of(short, short, short, long_doc()).map(lambda s: {"s": s})] * 60
                       + [bom_doc().map(lambda s: {"s": s})] * 3
                       + [huge_doc(), long_first_lines().map(lambda s: {"s": s}),
                          long_first_lines().map(lambda s: {"s": s})]))


# ------------------------------------------------------------ own output

WRITERS = {
    "srt": (SRTWriter, SRTReader), "webvtt": (WebVTTWriter, WebVTTReader),
    "dfxp": (DFXPWriter, DFXPReader), "sami": (SAMIWriter, SAMIReader),
    "microdvd": (MicroDVDWriter, MicroDVDReader), "scc": (SCCWriter, SCCReader),
    "dfxp-legacy": (LegacyDFXPWriter, DFXPReader),
    "dfxp-single": (SinglePositioningDFXPWriter, DFXPReader),
}


def own_strategy(tier):
    @st.composite
    def build(draw):
        w = draw(st.sampled_from(sorted(WRITERS)))
        ascii_only = w == "scc"
        # (the WebVTT marker is the upper-case word; the same letters in another case are text)
        ln = gen.lines(meta=True, pipe=(w != "microdvd"), markers=False, ascii_only=ascii_only,
                       extra=["webvtt", "Webvtt", "our webvtt guide", "WebVTT"])
        if w == "scc":
            # SCC: cues far enough apart and short enough to be transmitted, <=4 lines of <=32;
            # durations exceed the transmission time of a caption (the writer's handling of
            # the first caption's pre-roll is judged by C17, not here)
            s = draw(gen.simple_set(ln.map(lambda x: x[:32].strip() or "x"), 1, 3, gen.HOUR,
                                    min_dur=6 * gen.SEC, min_gap=6 * gen.SEC,
                                    empty_lines=False))
            for c in s["langs"][0]["cues"]:
                c["start"] += 10 * gen.SEC
                c["end"] += 10 * gen.SEC
        else:
            # any duration, except that a cue lying wholly inside MicroDVD frame 0 would be
            # written {0}{0}..., which the format reserves for the frame-rate declaration
            s = draw(gen.simple_set(ln, 1, 3, min_dur=0, empty_lines=False, split_anywhere=True))
            if draw(st.integers(0, 3)) == 0:
                # cues shorter than a frame, early in the file ({1}{1}, {1}{2}, ...)
                t0 = draw(st.integers(0, 400)) * 1000
                for c in s["langs"][0]["cues"]:
                    d = draw(st.integers(0, 60)) * 1000
                    c["start"], c["end"] = t0, t0 + d
                    t0 += d + draw(st.integers(1, 50)) * 1000
            if draw(st.integers(0, 5)) == 0:
                # a first cue inside the second frame whose whole text is a number
                # ({1}{1}25 in MicroDVD; "25" under a counter line in SRT)
                c0 = s["langs"][0]["cues"][0]
                c0["start"] = 40000 + draw(st.integers(0, 30)) * 1000
                c0["end"] = c0["start"] + draw(st.integers(0, 9)) * 1000
                c0["nodes"] = [{"t": draw(st.sampled_from(["25", "3", "23.976", "1984", "0"]))}]
                for k, c in enumerate(s["langs"][0]["cues"][1:]):
                    c["start"] = max(c["start"], c0["end"] + (k + 1) * 100000)
                    c["end"] = max(c["end"], c["start"])
            if w == "microdvd":
                for c in s["langs"][0]["cues"]:
                    if c["end"] < 40000:
                        c["end"] = 40000 + c["end"] % 1000
        if w == "webvtt" and draw(st.integers(0, 3)) == 0:
            # an arrow formed by two or three adjacent text nodes (the reader of the format must
            # still be able to read what the writer makes of it)
            cut = draw(st.sampled_from(["-|->", "--|>", "-|-|>"]))
            s["langs"][0]["cues"][0]["nodes"] = [{"t": p_} for p_ in ("a " + cut + " b").split("|")]
        if draw(st.integers(0, 3)) == 0:
            # times as the SCC reader (or arithmetic on times) leaves them: floats, whole or not
            for c in s["langs"][0]["cues"]:
                f = draw(st.sampled_from([0.0, 0.0, 0.5, 1 / 3, 0.666666666686]))
                c["start"] = float(c["start"]) + f
                c["end"] = float(c["end"]) + f
        return {"writer": w, "set": s}
    return build()


def _has_marker(text):
    low = text.lower()
    return "WEBVTT" in text or "<sami" in low or "</tt>" in low


def check_own(case, rec):
    w = case["writer"]
    wcls, rcls = WRITERS[w]
    texts = ["".join(n["t"] for n in c["nodes"] if "t" in n) for c in case["set"]["langs"][0]["cues"]]
    if any(_has_marker(t) for t in texts):
        rec.label("skipped:marker-in-text")
        return
    cs = model.to_pycaption(case["set"])
    with must(f"{wcls.__name__}.write"):
        doc = wcls().write(cs)
    exp = oracle_detect(doc, rec)
    require(exp is rcls, lambda: f"output of {wcls.__name__} detected as "
                                 f"{getattr(exp, '__name__', exp)}: {doc[:120]!r}")
    if rec.is_open("srt-double-break") and w == "srt":
        pass
    with must(f"{rcls.__name__}.read of {wcls.__name__} output"):
        back = rcls().read(doc)
    require(not back.is_empty(), "reader returned an empty caption set for own output")
    rec.label("writer:" + w)
    rec.nontrivial(True)


def fuzz_chunks(tier):
    import os
    seed = int(os.environ.get("VERIF_SEED", "1") or 1)
    return [{"shard": k, "seed": seed, "tier": tier} for k in range(4 if tier == "quick" else 16)]


def fuzz_expand(chunk):
    from ..runner import fuzz_cases
    runs = 40000 if chunk["tier"] == "quick" else 3000000
    for data in fuzz_cases("c20", chunk["tier"], chunk["shard"], chunk["seed"], runs):
        yield {"s": data.decode("utf-8", "ignore"), "fuzz": True}


def subchecks(tier):
    return [
        Sub("atheris", check_string, chunks=fuzz_chunks, expand=fuzz_expand),
        Sub("tokens", check_string, chunks=token_chunks, expand=token_expand, exhaustive=True),
        Sub("trunc", check_string, chunks=trunc_chunks, expand=trunc_expand, exhaustive=True),
        Sub("text", check_string, strategy=text_strategy, examples=(20000, 400000),
            min_per_shard=1000),
        Sub("own", check_own, strategy=own_strategy, examples=(3000, 60000), min_per_shard=150),
    ]
