"""C08 - any chain of conversions preserves the cue timeline and text."""
import itertools

from hypothesis import strategies as st

from .. import gen, model
from ..runner import Sub, must, require

from pycaption import (DFXPReader, DFXPWriter, MicroDVDReader, MicroDVDWriter, SAMIReader,
                       SAMIWriter, SRTReader, SRTWriter, WebVTTReader, WebVTTWriter)

PROPERTY = "C08"
RULE = ("caption sets of 1-6 cues per language with strictly increasing starts, no overlap, "
        "durations >= 40 ms (one MicroDVD frame, the coarsest resolution), below 24h, 1-3 lines "
        "of visible text from the metacharacter pool + printable Unicode (one text node per "
        "line; '|' excluded); (pairs) every ordered pair of the five formats, two passes; "
        "(chains) random chains of 3-6 formats, two passes; (multi) sets of 2-3 languages, timed independently or on one 100 ms grid so that languages share instants, over chains "
        "of DFXP and SAMI. After every hop: cue count, whitespace-normalised lines, and "
        "floor(t/res) of starts/ends (res = 1 ms, 40 ms once MicroDVD was on the chain; ends of "
        "a language's last cue not compared once SAMI was on the chain). Non-trivial: >= 2 cues "
        "and >= 2 different formats on the chain. "
        'Chains may run with one pooled reader and writer object per format. ')
ASSUMPTIONS = [
    "hops use pycaption's own writer and reader of the format with default options",
    "a cue lying wholly inside MicroDVD frame 0 ({0}{0}) is outside the domain (durations >= 40 ms); one leg uses a first cue shorter than a frame inside frame 1 (also with a bare number as text) and leaves SAMI out of its chains, because a cue without length at MicroDVD resolution has no SAMI spelling",
    "texts avoid '<html' / 'no closed captioning available' (SAMIReader rejects by design)",
    "sets with two differently positioned text nodes on one line are compared with line breaks counted as white space (WebVTT writes them as two cue blocks)",
]

FORMATS = ["srt", "webvtt", "dfxp", "sami", "microdvd"]
RW = {
    "srt": (SRTWriter, SRTReader), "webvtt": (WebVTTWriter, WebVTTReader),
    "dfxp": (DFXPWriter, DFXPReader), "sami": (SAMIWriter, SAMIReader),
    "microdvd": (MicroDVDWriter, MicroDVDReader),
}


def hop(fmt, cs, trail, pool=None):
    """One conversion hop.  With a pool, one writer and one reader object per format serve
    the whole chain (a long-lived converter), otherwise fresh objects are used."""
    w, r = RW[fmt]
    if pool is not None:
        if fmt not in pool:
            pool[fmt] = (w(), r())
        wo, ro = pool[fmt]
    else:
        wo, ro = w(), r()
    if pool is not None and pool.get("__converter__"):
        # the documented CaptionConverter front end instead of calling reader / writer directly
        from pycaption import CaptionConverter
        with must(f"CaptionConverter.write({w.__name__}) ({' > '.join(trail)})"):
            doc = CaptionConverter(cs).write(wo)
        with must(f"CaptionConverter.read({r.__name__}) of own output ({' > '.join(trail)})"):
            return CaptionConverter().read(doc, ro).captions, doc
    with must(f"{w.__name__}.write ({' > '.join(trail)})"):
        doc = wo.write(cs)
    with must(f"{r.__name__}.read of own output ({' > '.join(trail)})"):
        return ro.read(doc), doc


def snap(cs):
    """{lang: [(start, end, [normalised lines])]}"""
    out = {}
    for lang in cs.get_languages():
        out[lang] = [(c.start, c.end, model.norm_lines(model.cue_lines_py(c)))
                     for c in cs.get_captions(lang)]
    return out


_FLAT = [False]     # compare a cue's text with line breaks counted as white space


def _compare(ref, got, res, sami_seen, trail, doc, positional):
    """ref/got: {lang: [(start, end, lines)]}"""
    if positional:
        pairs = [(list(ref.values())[0], list(got.values())[0] if got else [])]
        require(len(got) == 1, lambda: f"{' > '.join(trail)}: {len(got)} languages after the hop")
    else:
        require(sorted(ref) == sorted(got), lambda: f"{' > '.join(trail)}: languages {sorted(got)} vs {sorted(ref)}")
        pairs = [(ref[k], got[k]) for k in sorted(ref)]
    for rl, gl in pairs:
        require(len(rl) == len(gl),
                lambda: f"{' > '.join(trail)}: {len(gl)} cues after the hop, {len(rl)} before; doc: {doc[:500]!r}")
        for i, ((rs, re_, rt), (gs, ge, gt)) in enumerate(zip(rl, gl)):
            if _FLAT[0]:
                rt, gt = " ".join(rt).split(), " ".join(gt).split()
            require(rt == gt, lambda: f"{' > '.join(trail)}: cue {i} text {gt!r}, was {rt!r}; doc: {doc[:500]!r}")
            require(int(rs) // res == int(gs) // res,
                    lambda: f"{' > '.join(trail)}: cue {i} start {gs}, was {rs} (resolution {res} us)")
            if not (sami_seen and i == len(rl) - 1):
                require(int(re_) // res == int(ge) // res,
                        lambda: f"{' > '.join(trail)}: cue {i} end {ge}, was {re_} (resolution {res} us)")


def run_chain(start_cs, ref, chain, positional, passes=2, pool=None):
    """Apply the chain `passes` times; after each hop compare with the reference snapshot."""
    cs = start_cs
    res = 1000
    sami_seen = False
    trail = []
    first_pass_end = None
    for p in range(passes):
        for fmt in chain:
            trail.append(fmt)
            if fmt == "microdvd":
                res = 40000
            if fmt == "sami":
                sami_seen = True
            cs, doc = hop(fmt, cs, trail, pool)
            got = snap(cs)
            _compare(ref, got, res, sami_seen, trail, doc, positional)
        if p == 0:
            first_pass_end = snap(cs)
        else:
            second = snap(cs)
            a = _at_res(first_pass_end, res, sami_seen, positional)
            b = _at_res(second, res, sami_seen, positional)
            require(a == b, lambda: f"{' > '.join(trail)}: second pass differs from first: {b} vs {a}")
    return cs


def _at_res(s, res, sami_seen, positional):
    vals = list(s.values()) if positional else [s[k] for k in sorted(s)]
    out = []
    for cues in vals:
        o = []
        for i, (a, b, t) in enumerate(cues):
            last = i == len(cues) - 1
            o.append((int(a) // res, None if (sami_seen and last) else int(b) // res, t))
        out.append(o)
    return out


def _set(multi=False, pipe=False):
    ln = gen.lines(meta=True, pipe=pipe, markers=False, extra=gen.LONG).filter(
        lambda s: "<html" not in s.lower() and "no closed captioning" not in s.lower())

    @st.composite
    def build(draw):
        langs = []
        codes = ["en-US"]
        grid = False
        if multi:
            codes = ["en-US", "fr-FR", "de-DE"][:draw(st.sampled_from([2, 2, 3, 3]))]
            # languages timed on one coarse grid share start / end instants with each other
            grid = draw(st.integers(0, 2)) == 0
        for code in codes:
            s = draw(gen.simple_set(ln, 1, 6, gen.DAY - gen.MIN, min_dur=40 * gen.MS,
                                    empty_lines=True, split_nodes=False, max_lines=3,
                                    empty_kinds=("br", "style", "blank"), edge_breaks=True))
            lang = s["langs"][0]
            lang["code"] = code
            if draw(st.integers(0, 4)) == 0 and lang["cues"]:
                # a line whose words sit in nested style spans, the outer text ending in a blank
                # right where the inner span starts
                c = lang["cues"][draw(st.integers(0, len(lang["cues"]) - 1))]
                outer = draw(st.sampled_from([{"italics": True}, {"color": "red"}, {"bold": True}]))
                inner = draw(st.sampled_from([{"bold": True}, {"italics": True}, {"underline": True}]))
                c["nodes"] = [{"t": "She said: "}, {"s": True, "c": outer}, {"t": "never "}, {"s": True, "c": inner},
                              {"t": "ever"}, {"s": False, "c": inner}, {"t": " again."}, {"s": False, "c": outer}]
                c["lines"] = ["She said: never ever again."]
                c["multi"] = False
                c["empties"] = False
            if grid:
                n = len(lang["cues"])
                pts = sorted(draw(st.lists(st.integers(0, 60), min_size=2 * n, max_size=2 * n, unique=True)))
                for i, c in enumerate(lang["cues"]):
                    c["start"], c["end"] = pts[2 * i] * 100 * gen.MS, pts[2 * i + 1] * 100 * gen.MS
                    if i + 1 < n and draw(st.booleans()):
                        c["end"] = pts[2 * i + 2] * 100 * gen.MS
            langs.append(lang)
        return {"langs": langs, "styles": {}, "layout": None}
    return build()


def pairs_strategy(tier):
    @st.composite
    def build(draw):
        s = draw(_set())
        case = {"set": s}
        if draw(st.integers(0, 7)) == 0:
            # a first cue shorter than a MicroDVD frame, lying inside the second frame, whose
            # text may be a bare number ({1}{1}25).  Such a cue has no length at MicroDVD
            # resolution, which SAMI cannot express (a cue lasts until the next SYNC), so
            # these sets are run through the four other formats only.
            cues = s["langs"][0]["cues"]
            c0 = cues[0]
            c0["start"] = 40000 + draw(st.integers(0, 30)) * 1000
            c0["end"] = c0["start"] + draw(st.integers(0, 9)) * 1000
            if draw(st.booleans()):
                txt = draw(st.sampled_from(["25", "24", "3", "23.976", "1984"]))
                c0["nodes"], c0["lines"] = [{"t": txt}], [txt]
            for k, c in enumerate(cues[1:]):
                if c["start"] < 200000 * (k + 1):
                    d = c["end"] - c["start"]
                    c["start"] = 200000 * (k + 1) + c["start"]
                    c["end"] = c["start"] + d
            cues.sort(key=lambda c: c["start"])
            for a, b in zip(cues, cues[1:]):
                a["end"] = min(a["end"], b["start"])
            case["short_first"] = True
        elif draw(st.integers(0, 7)) == 0:
            # two adjacent text nodes of one line positioned differently (WebVTT writes them as
            # two cue blocks with the same times, which its reader must re-assemble into one
            # cue); white space and line breaks are compared alike in these sets
            LA = {"origin": [[10, "%"], [10, "%"]], "extent": None, "padding": None, "align": ["left", "top"], "webvtt": None}
            LB = {"origin": [[20, "%"], [70, "%"]], "extent": [[60, "%"], [20, "%"]], "padding": None, "align": None, "webvtt": None}
            cues = s["langs"][0]["cues"]
            c = cues[draw(st.integers(0, len(cues) - 1))]
            c["nodes"] = [{"t": "[door slams] ", "layout": LA}, {"t": "Who is there?", "layout": LB}]
            c["lines"] = ["[door slams] Who is there?"]
            c["multi"], c["empties"] = False, False
            case["flat"] = True
        return case
    return build()


def check_pairs(case, rec):
    _FLAT[0] = bool(case.get("flat"))
    try:
        _check_pairs(case, rec)
    finally:
        _FLAT[0] = False


def _check_pairs(case, rec):
    cs0 = model.to_pycaption(case["set"])
    ref = snap(cs0)
    first = {}
    formats = [f for f in FORMATS if not (case.get("short_first") and f == "sami")]
    if case.get("short_first"):
        rec.label("short-first-cue")
    for a in formats:
        first[a] = run_chain(cs0, ref, [a], True, passes=1)
    n = len(case["set"]["langs"][0]["cues"])
    for a, b in itertools.product(formats, formats):
        run_chain(cs0, ref, [a, b], True, passes=2)
    rec.nontrivial(n >= 2)
    rec.label(f"cues:{min(n, 3)}+" if n >= 3 else f"cues:{n}")


def chains_strategy(tier):
    return st.fixed_dictionaries({
        "set": _set(),
        "chain": st.lists(st.sampled_from(FORMATS), min_size=3, max_size=6),
        "pooled": st.booleans(), "converter": st.booleans(),
    })


def check_chain(case, rec):
    cs0 = model.to_pycaption(case["set"])
    pool = {} if case.get("pooled") else None
    if pool is not None and case.get("converter"):
        pool["__converter__"] = True
        rec.label("caption-converter")
    run_chain(cs0, snap(cs0), case["chain"], True, passes=2, pool=pool)
    if pool is not None:
        rec.label("pooled-objects")
    n = len(case["set"]["langs"][0]["cues"])
    rec.nontrivial(n >= 2 and len(set(case["chain"])) >= 2)
    rec.label("len:%d" % len(case["chain"]))


def multi_strategy(tier):
    return st.fixed_dictionaries({
        "set": _set(multi=True),
        "chain": st.lists(st.sampled_from(["dfxp", "sami"]), min_size=1, max_size=4),
        "pooled": st.booleans(),
    })


def check_multi(case, rec):
    cs0 = model.to_pycaption(case["set"])
    pool = {} if case.get("pooled") else None
    run_chain(cs0, snap(cs0), case["chain"], False, passes=2, pool=pool)
    rec.nontrivial(len(set(case["chain"])) >= 2)
    rec.label("multi:" + ">".join(case["chain"][:2]))


def subchecks(tier):
    return [
        Sub("pairs", check_pairs, strategy=pairs_strategy, examples=(900, 40000), min_per_shard=40),
        Sub("chains", check_chain, strategy=chains_strategy, examples=(2500, 100000), min_per_shard=100),
        Sub("multi", check_multi, strategy=multi_strategy, examples=(1500, 60000), min_per_shard=80),
    ]
