"""C14 - each language's captions stay under their language, in document order."""
from hypothesis import strategies as st

from .. import gen, model, zygote
from ..ref import parsers as P
from ..ref import serial as S
from ..runner import Sub, Violation, must, require

from pycaption import (DFXPReader, DFXPWriter, MicroDVDReader, SAMIReader, SAMIWriter, SCCReader,
                       SRTReader, WebVTTReader, WebVTTWriter)
from pycaption.base import DEFAULT_LANGUAGE_CODE
from pycaption.dfxp.extras import LegacyDFXPWriter, SinglePositioningDFXPWriter

PROPERTY = "C14"
RULE = ("1-4 languages (BCP-47-shaped codes), 1-5 sorted non-overlapping cues per language with "
        "interleaved / coinciding / disjoint times across languages. (dfxp-read) documents with "
        "divs with/without xml:lang, tt with/without xml:lang, read in-process and in pristine "
        "zygote children under several PYTHONHASHSEED values and under "
        "PYCAPTION_DEFAULT_LANG=zz; (sami-read) classes mapped by the stylesheet or a lang "
        "attribute, reads repeated under several hash seeds; (write; also with one empty language, a style named like a language, force= in other case / prefix, languages attached with set_captions after construction; SAMI reads with prefix-related language classes) sets -> DFXP (force), "
        "legacy/single DFXP, SAMI, WebVTT(lang) parsed independently; (lang-opt) lang= on the "
        "SRT / WebVTT / MicroDVD / SCC readers. Non-trivial: >= 2 languages with at least one "
        "pair of cues whose time order across languages differs from language order. "
        'The writer object may have written another multi-language set before; prefix-related '
        'tags (en / en-US) may stand side by side on the write side. ')
ASSUMPTIONS = [
    "at most one div maps to a given language (two divs of one language are not generated)",
    "language codes of one document are not prefixes of each other (SAMI selects with |=)",
    "SAMI lang= attributes are two-letter codes (the reader keeps the first two characters)",
]

CODES = ["en", "fr", "de", "es", "en-US", "fr-CA", "pt-BR", "zh-Hans", "ja", "it", "br", "div"]   # (br = Breton, div = Dhivehi: also element names)


def _codes(draw, n, allow_prefix=False):
    pool = draw(st.permutations(CODES))
    out = []
    for c in pool:
        if allow_prefix or all(not (c.startswith(o + "-") or o.startswith(c + "-") or c == o) for o in out):
            out.append(c)
        if len(out) == n:
            break
    return out


def _lang_cues(draw, li):
    spans = draw(gen.sorted_spans(1, 5, 2 * gen.HOUR, min_dur=gen.MS * 100, min_gap=0))
    mode = draw(st.integers(0, 2))
    cues = []
    for k, (a, b) in enumerate(spans):
        if mode == 1:   # coinciding grid across languages
            a = (k + 1) * 2 * gen.SEC
            b = a + gen.SEC
        elif mode == 2:  # disjoint blocks per language, later languages earlier in time
            a = (10 - li) * 100 * gen.SEC + k * 2 * gen.SEC
            b = a + gen.SEC
        a, b = (a // 1000) * 1000, (b // 1000) * 1000
        cues.append({"start": a, "end": max(b, a + 100000), "text": f"L{li} cue {k}"})
    # keep sorted & non-overlapping
    out = []
    for c in cues:
        if out and c["start"] < out[-1]["end"]:
            c["start"] = out[-1]["end"]
            c["end"] = max(c["end"], c["start"] + 100000)
        out.append(c)
    return out


def multi_strategy(max_langs=4, allow_prefix=False):
    @st.composite
    def build(draw):
        n = draw(st.integers(1, max_langs))
        codes = _codes(draw, n, allow_prefix)
        if allow_prefix and n >= 2 and draw(st.integers(0, 2)) == 0:
            # prefix-related tags side by side (en / en-US), in either order
            pair = draw(st.sampled_from([["en", "en-US"], ["en-US", "en"], ["fr", "fr-CA"], ["fr-CA", "fr"]]))
            codes = pair + [c for c in codes if c not in pair][:n - 2]
        return [{"code": c, "cues": _lang_cues(draw, i)} for i, c in enumerate(codes)]
    return build()


def _nontrivial(langs):
    if len(langs) < 2:
        return False
    for i in range(len(langs)):
        for j in range(i + 1, len(langs)):
            for a in langs[i]["cues"]:
                for b in langs[j]["cues"]:
                    if b["start"] < a["start"]:
                        return True
    return False


def _ms(us):
    return "%02d:%02d:%02d.%03d" % (us // 3600000000, us // 60000000 % 60, us // 1000000 % 60,
                                    us // 1000 % 1000)


def _seeds(tier):
    return (0, 1) if tier == "quick" else (0, 1, 2, 3)


# ------------------------------------------------------------------ DFXP reader

def dfxp_read_strategy(tier):
    @st.composite
    def build(draw):
        langs = draw(multi_strategy())
        nolang = draw(st.one_of(st.none(), st.integers(0, len(langs) - 1)))
        tt_lang = draw(st.sampled_from([None, "nl", "sv"]))
        return {"langs": langs, "nolang": nolang, "tt_lang": tt_lang, "tier": tier}
    return build()


def check_dfxp_read(case, rec):
    langs = case["langs"]
    divs = []
    exp_codes = []
    for i, l in enumerate(langs):
        ps = [{"attrs": [("begin", _ms(c["start"])), ("end", _ms(c["end"]))], "inner": c["text"]}
              for c in l["cues"]]
        code = l["code"]
        if case["nolang"] == i:
            divs.append({"lang": None, "ps": ps})
            exp_codes.append(case["tt_lang"] or None)   # None -> configured default
        else:
            divs.append({"lang": code, "ps": ps})
            exp_codes.append(code)
    doc = S.dfxp_doc(divs, tt_lang=case["tt_lang"])

    def verify(dumped, default_code, where):
        exp = [c if c is not None else default_code for c in exp_codes]
        got = [l["code"] for l in dumped["langs"]]
        require(got == exp, lambda: f"dfxp read ({where}): languages {got}, expected {exp} in order of appearance")
        for l_in, l_out in zip(langs, dumped["langs"]):
            g = [(c["start"], "".join(n.get("t", "") for n in c["nodes"]).strip()) for c in l_out["cues"]]
            e = [(c["start"], c["text"]) for c in l_in["cues"]]
            require(g == e, lambda: f"dfxp read ({where}): language {l_out['code']} has cues {g}, expected {e}")

    with must("DFXPReader.read"):
        cs = DFXPReader().read(doc)
    verify(model.dump(cs), DEFAULT_LANGUAGE_CODE, "in-process")
    for hs in _seeds(case["tier"]):
        r = zygote.get(hs).request({"op": "read", "fmt": "dfxp", "doc": doc})
        if "err" in r:
            raise Violation(f"dfxp read in pristine process (hash seed {hs}) raised {r['err']}")
        verify(r["ok"], "und", f"pristine process, PYTHONHASHSEED={hs}")
    if case["nolang"] is not None and case["tt_lang"] is None:
        r = zygote.get(0, "zz").request({"op": "read", "fmt": "dfxp", "doc": doc})
        if "err" in r:
            raise Violation(f"dfxp read with PYCAPTION_DEFAULT_LANG=zz raised {r['err']}")
        verify(r["ok"], "zz", "PYCAPTION_DEFAULT_LANG=zz")
        rec.label("default-lang-env")
    rec.nontrivial(_nontrivial(langs))
    if case["nolang"] is not None:
        rec.label("div-without-lang")


# ------------------------------------------------------------------ SAMI reader

def sami_read_strategy(tier):
    @st.composite
    def build(draw):
        langs = draw(multi_strategy(allow_prefix=True))
        via_attr = [draw(st.booleans()) and len(l["code"]) == 2 for l in langs]
        # paragraphs that name their language by attribute may carry a class as well - a pure
        # styling class or an undeclared one - written before or after the lang attribute
        xcls = [draw(st.sampled_from([None, None, "speaker", "nosuch"])) if v else None for v in via_attr]
        xfirst = [draw(st.booleans()) for _ in langs]
        return {"langs": langs, "via_attr": via_attr, "xcls": xcls, "xfirst": xfirst, "tier": tier}
    return build()


def check_sami_read(case, rec):
    langs = case["langs"]
    events = []
    for li, l in enumerate(langs):
        for c in l["cues"]:
            events.append((c["start"] // 1000, li, c["text"], False))
            events.append((c["end"] // 1000, li, "", True))
    events.sort(key=lambda e: (e[0], e[1], e[3]))
    syncs = []
    for ms, li, text, blank in events:
        code = langs[li]["code"]
        cls = "C" + code.replace("-", "").upper()
        p = {"inner": "&nbsp;" if blank else text}
        if case["via_attr"][li]:
            p["lang"] = code
        else:
            p["cls"] = cls
        # a blank P at the very millisecond where the same language's next cue starts is dropped
        if syncs and syncs[-1][0] == str(ms):
            same = [q for q in syncs[-1][1] if q.get("cls") == p.get("cls") and q.get("lang") == p.get("lang")]
            if same:
                if blank:
                    continue
                if same[0]["inner"] == "&nbsp;":
                    syncs[-1][1].remove(same[0])
                else:
                    syncs.append((str(ms), [p]))
                    continue
            syncs[-1][1].append(p)
        else:
            syncs.append((str(ms), [p]))
    classes = [("C" + l["code"].replace("-", "").upper(), l["code"], []) for li, l in enumerate(langs)
               if not case["via_attr"][li]]
    xcls = case.get("xcls") or [None] * len(langs)
    if any(xcls):
        classes.append(("speaker", None, [("color", "yellow")]))
        by_code = {l["code"]: li for li, l in enumerate(langs)}
        for _, ps in syncs:
            for q in ps:
                li = by_code.get(q.get("lang"))
                if li is not None and xcls[li]:
                    if case["xfirst"][li]:
                        q["cls"] = xcls[li]
                    else:
                        q["attrs"] = [("class", xcls[li])]
        rec.label("lang-attribute-with-class")
    doc = S.sami_doc(syncs, classes)
    first = []
    for _, ps in syncs:
        for p in ps:
            code = p.get("lang") or [l["code"] for l in langs
                                     if "C" + l["code"].replace("-", "").upper() == p.get("cls")][0]
            if code not in first and p["inner"] != "&nbsp;":
                first.append(code)
    appear = []
    for _, ps in syncs:
        for p in ps:
            code = p.get("lang") or [l["code"] for l in langs
                                     if "C" + l["code"].replace("-", "").upper() == p.get("cls")][0]
            if code not in appear:
                appear.append(code)

    def verify(dumped, where):
        got = [l["code"] for l in dumped["langs"]]
        require(sorted(got) == sorted(appear), lambda: f"sami read ({where}): languages {got}, document has {appear}")
        require(got == appear, lambda: f"sami read ({where}): languages listed as {got}, order of first appearance is {appear}")
        by = {l["code"]: l for l in dumped["langs"]}
        for l in langs:
            g = [(c["start"], "".join(n.get("t", "") for n in c["nodes"]).strip()) for c in by[l["code"]]["cues"]]
            e = [((c["start"] // 1000) * 1000, c["text"]) for c in l["cues"]]
            require(g == e, lambda: f"sami read ({where}): language {l['code']} has cues {g}, expected {e}")

    with must("SAMIReader.read"):
        cs = SAMIReader().read(doc)
    verify(model.dump(cs), "in-process")
    for hs in _seeds(case["tier"]):
        r = zygote.get(hs).request({"op": "read", "fmt": "sami", "doc": doc})
        if "err" in r:
            raise Violation(f"sami read in pristine process (hash seed {hs}) raised {r['err']}")
        verify(r["ok"], f"pristine process, PYTHONHASHSEED={hs}")
    rec.nontrivial(_nontrivial(langs))
    rec.label(f"langs:{len(langs)}")
    if any(case["via_attr"]):
        rec.label("lang-attribute")


# ------------------------------------------------------------------ writers

def write_strategy(tier):
    @st.composite
    def build(draw):
        langs = draw(multi_strategy(allow_prefix=True))
        codes = [l["code"] for l in langs]
        if len(langs) >= 2 and draw(st.integers(0, 3)) == 0:
            # a language without captions (API-built sets, or what retiming leaves behind)
            langs[draw(st.integers(0, len(langs) - 1))]["cues"] = []
        prev = draw(st.one_of(st.none(), st.none(), multi_strategy(allow_prefix=True)))
        return {"langs": langs, "writer": draw(st.sampled_from(["dfxp", "dfxp-legacy", "dfxp-single", "sami", "webvtt"])),
                "pick": draw(st.sampled_from([None] + codes + ["xx"] + [c.lower() for c in codes] +
                                             [c.upper() for c in codes] + [c.split("-")[0] for c in codes])),
                "prev": prev,
                # names live in separate name spaces: a style may be called like a language
                "via_set_captions": draw(st.sampled_from([0, 0, 0, 1, 2, 3])),
                "style_named": draw(st.sampled_from([None, None, None] + codes + [c.lower() for c in codes]))}
    return build()


def _to_set(langs, styles=None):
    return {"langs": [{"code": l["code"], "layout": None,
                       "cues": [{"start": c["start"], "end": c["end"], "nodes": [{"t": c["text"]}],
                                 "style": {}, "layout": None} for c in l["cues"]]} for l in langs],
            "styles": styles or {}, "layout": None}


def check_write(case, rec):
    langs = case["langs"]
    codes = [l["code"] for l in langs]
    w = case["writer"]
    pick = case["pick"]
    styles = None
    if case.get("style_named"):
        styles = {case["style_named"]: {"color": "red"}}
        rec.label("style-named-like-a-language")
    cs = model.to_pycaption(_to_set(langs, styles))
    if case.get("via_set_captions") and len(langs) >= 2:
        # the same set, built the other documented way: languages attached after construction
        k = case["via_set_captions"] % len(langs) or 1
        full = cs
        cs = model.to_pycaption(_to_set(langs[:k], styles))
        for l in langs[k:]:
            cs.set_captions(l["code"], full.get_captions(l["code"]))
        rec.label("languages-attached-with-set_captions")
    by = {l["code"]: l for l in langs}
    wcls = {"dfxp": DFXPWriter, "dfxp-legacy": LegacyDFXPWriter, "dfxp-single": SinglePositioningDFXPWriter,
            "sami": SAMIWriter, "webvtt": WebVTTWriter}[w]
    writer = wcls()
    if case.get("prev"):
        # the writer object has written another (multi-language) set before
        try:
            writer.write(model.to_pycaption(_to_set(case["prev"])))
        except Exception:  # noqa
            pass
        rec.label("reused-writer")
    if w.startswith("dfxp"):
        cls = wcls
        with must(f"{cls.__name__}.write"):
            out = writer.write(cs, force=pick) if pick else writer.write(cs)
        try:
            doc = P.parse_dfxp(out)
        except P.RefParseError as e:
            raise Violation(f"{w}: {e}")
        alt = None
        if pick in codes:
            exp = [pick]
        elif pick and w == "dfxp-legacy":
            exp = None      # legacy writer documents a fallback to some language: not judged
        else:
            exp = codes
            ci = [c for c in codes if pick and c.lower() == pick.lower()]
            if len(ci) == 1:
                alt = ci    # a case-insensitive match writing exactly that language is accepted
                rec.label("force-in-other-case")
        if exp is not None:
            got = [d["lang"] for d in doc["divs"]]
            require(got == exp or (alt is not None and [g.lower() for g in got] == [a.lower() for a in alt]),
                    lambda: f"{w}(force={pick!r}): divs for {got}, expected {exp}")
            if got != exp:
                by = dict(by, **{d["lang"]: by[alt[0]] for d in doc["divs"]})
            for d in doc["divs"]:
                g = [(P.ttml_clock_ms_strict(p["begin"]), " ".join("".join(p["lines"]).split())) for p in d["ps"]]
                e = [((c["start"] // 1000) * 1000, c["text"]) for c in by[d["lang"]]["cues"]]
                require(g == e, lambda: f"{w}: div {d['lang']} holds {g}, expected {e}")
    elif w == "webvtt":
        with must("WebVTTWriter.write"):
            out = writer.write(cs, lang=pick) if pick in codes else writer.write(cs)
        cues = P.parse_webvtt(out)
        sel = pick if pick in codes else codes[0]
        g = [(c["start"], " ".join(P.vtt_payload_lines(c["lines"]))) for c in cues]
        e = [((c["start"] // 1000) * 1000, c["text"]) for c in by[sel]["cues"]]
        require(g == e, lambda: f"webvtt(lang={pick!r}): cues {g}, expected those of {sel}: {e}")
    else:
        with must("SAMIWriter.write"):
            out = writer.write(cs)
        doc = P.parse_sami(out)
        starts = [int(sy["start"]) for sy in doc["syncs"]]
        require(starts == sorted(starts), lambda: f"sami: SYNC starts not in non-decreasing order: {starts}")
        for l in langs:
            cls_ = l["code"].lower()
            # the class the paragraphs use must be bound to the language by the style sheet
            rule = doc["class_rules"].get(cls_) or {}      # a CLASS selector (.xx), not an element rule
            require((rule.get("lang") or "").lower() == l["code"].lower(),
                    lambda: f"sami: class .{cls_} is not declared with lang: {l['code']} in the style sheet "
                            f"(rules {doc['classes']})")
            g = []
            for sy in doc["syncs"]:
                for p in sy["ps"]:
                    if (p["attrs"].get("class") or "").lower() == cls_:
                        txt = " ".join("".join(p["lines"]).replace(" ", " ").split())
                        if txt:
                            g.append((int(sy["start"]), txt))
            e = [(c["start"] // 1000, c["text"]) for c in l["cues"]]
            require(g == e, lambda: f"sami: paragraphs of class {l['code']} are {g}, expected {e}")
        known = {l["code"].lower() for l in langs}
        for sy in doc["syncs"]:
            for p in sy["ps"]:
                require((p["attrs"].get("class") or "").lower() in known,
                        lambda: f"sami: paragraph with unexpected class {p['attrs']}")
    rec.nontrivial(_nontrivial(langs))
    rec.label("writer:" + w)
    if pick:
        rec.label("lang-option")


# ------------------------------------------------------------------ lang= on single-language readers

SAMPLE = {
    "srt": "1\n00:00:01,000 --> 00:00:02,000\nhello\n",
    "webvtt": "WEBVTT\n\n00:01.000 --> 00:02.000\nhello\n",
    "microdvd": "{25}{50}hello\n",
    "scc": "Scenarist_SCC V1.0\n\n00:00:01:00\t9420 9420 94ae 94ae 9470 9470 c8e5 ecec ef80 942f 942f\n\n00:00:03:00\t942c 942c\n",
}


def langopt_strategy(tier):
    return st.fixed_dictionaries({"fmt": st.sampled_from(sorted(SAMPLE)),
                                  "lang": st.sampled_from(CODES + ["x-klingon", "und", "EN"])})


def check_langopt(case, rec):
    cls = {"srt": SRTReader, "webvtt": WebVTTReader, "microdvd": MicroDVDReader, "scc": SCCReader}[case["fmt"]]
    with must(f"{cls.__name__}.read(lang=)"):
        cs = cls().read(SAMPLE[case["fmt"]], lang=case["lang"])
    require(cs.get_languages() == [case["lang"]], lambda: f"{case['fmt']} read(lang={case['lang']!r}) -> languages {cs.get_languages()}")
    require(len(cs.get_captions(case["lang"])) == 1, "caption not filed under the requested language")
    rec.nontrivial(True)


def subchecks(tier):
    return [
        Sub("dfxp-read", check_dfxp_read, strategy=dfxp_read_strategy, examples=(1500, 40000), min_per_shard=80),
        Sub("sami-read", check_sami_read, strategy=sami_read_strategy, examples=(1200, 30000), min_per_shard=60),
        Sub("write", check_write, strategy=write_strategy, examples=(4000, 100000), min_per_shard=200),
        Sub("lang-opt", check_langopt, strategy=langopt_strategy, examples=(200, 2000), min_per_shard=100),
    ]
