"""C12 - positioning survives DFXP round trips and maps faithfully to WebVTT settings."""
from fractions import Fraction

from hypothesis import strategies as st

from .. import model
from ..ref import parsers as P
from ..ref import serial as S
from ..runner import Sub, Violation, must, require
from .c13 import _close, _fit, _pct

from pycaption import DFXPReader, DFXPWriter, WebVTTReader, WebVTTWriter

PROPERTY = "C12"
RULE = ("percent layouts over the grid {0,5,10,12.5,33.33,50,90,95,100} + random two-decimal "
        "values, paddings with 1-4 sides, all 5x3 alignments and None, each part independently "
        "absent, attached at language, caption and style-span level (text nodes carry the layout "
        "of their nearest carrier; a span's style may be empty and its end node need not repeat the layout); (dfxp) write with DFXPWriter(fit_to_screen on/off) and read "
        "back: per non-space character the effective input layout (node > caption > language > "
        "DFXP default) vs the text node's layout after the round trip; (webvtt) cue settings "
        "parsed independently and compared with Fraction arithmetic; captions whose text nodes "
        "carry different layouts must split into consecutive cues with the same times; "
        "(verbatim) settings strings of a WebVTT file written back verbatim. Non-trivial: >= 2 "
        "distinct layouts in the set, or a layout at more than one level, or padding present. "
        'In a quarter of the cases the writer / reader objects have handled another document '
        'before and another writer with the opposite fit option wrote the same set. '
        "Equal layouts are one shared Layout object in half of the cases (API-built sets); the "
        "language option is exercised (DFXP force= keyword / positional, known / unknown code; "
        "WebVTT lang= with a second language - with a layout of its own - listed before or "
        "after the written one); WebVTTWriter also runs with relativize=False (legal for "
        "percentages). "
        "A quarter of the DFXP cases hold twin layouts: two origins / extents with the same "
        "hash (offsets found by probing the library's __hash__), or the same two numbers as an "
        "origin-only and an extent-only layout. ")
ASSUMPTIONS = [
    "layout values have at most two decimals (printing is lossless)",
    "WebVTT arithmetic is judged for layouts that have an origin (the quantified domain)",
    "in the cue-splitting leg every text node of a caption carries an explicit layout",
    "two adjacent nodes whose layouts differ only in 'no alignment' versus 'an Alignment with "
    "neither half set' may be written as one cue or as two (the property does not say whether "
    "those are different layouts); the settings of every written cue are judged either way",
    "with fit_to_screen on, an extent that overflows the safe area is only required to end inside it",
]

GRID = [0, 5, 10, 12.5, 33.33, 50, 90, 95, 100]
HS = ["left", "center", "right", "start", "end"]
VS = ["top", "center", "bottom"]


def _pct_s(maxv=100):
    return st.tuples(st.one_of(st.sampled_from([g for g in GRID if g <= maxv]),
                               st.integers(0, int(maxv * 100)).map(lambda n: n / 100)),
                     st.just("%")).map(list)


def layout_s(need_origin=False, small_padding=False):
    @st.composite
    def build(draw):
        L = {"origin": None, "extent": None, "padding": None, "align": None, "webvtt": None}
        if need_origin or draw(st.integers(0, 3)) != 0:
            L["origin"] = [draw(_pct_s()), draw(_pct_s())]
        if draw(st.booleans()):
            L["extent"] = [draw(_pct_s()), draw(_pct_s())]
        if draw(st.integers(0, 2)) == 0:
            ps = _pct_s(10 if small_padding else 100)
            k = draw(st.integers(1, 4))
            sides = [None, None, None, None]
            for i in draw(st.lists(st.integers(0, 3), min_size=k, max_size=k, unique=True)):
                sides[i] = draw(ps)
            L["padding"] = sides
        am = draw(st.integers(0, 4))
        if am == 4 and draw(st.booleans()):
            L["align"] = [None, None]       # an alignment object with neither half set
        elif am == 1:
            L["align"] = [draw(st.sampled_from(HS)), draw(st.sampled_from(VS))]
        elif am == 2:
            L["align"] = [draw(st.sampled_from(HS)), None]
        elif am == 3:
            L["align"] = [None, draw(st.sampled_from(VS))]
        if not (L["origin"] or L["extent"] or L["padding"] or L["align"]):
            L["align"] = ["left", "top"]
        if L["origin"] and L["padding"] and draw(st.integers(0, 2)) == 0:
            # aim at the carries: edge + padding and width - paddings land on (or within
            # float noise of) round numbers
            pad = [x if x is not None else [0, "%"] for x in L["padding"]]
            tx = draw(st.sampled_from([10, 20, 30, 40, 50, 60, 12, 25]))
            ty = draw(st.sampled_from([10, 20, 30, 40, 50, 5]))
            tw = draw(st.sampled_from([10, 20, 30, 40, 50, 60]))
            L["origin"] = [[round(max(0, tx - pad[2][0]), 2), "%"], [round(max(0, ty - pad[0][0]), 2), "%"]]
            L["extent"] = [[round(tw + pad[2][0] + pad[3][0], 2), "%"], draw(_pct_s())]
        return L
    return build()


_OFFSETS = {}


def hash_offsets(kind="point"):
    """Integer (dx, dy) such that two Points / Stretches that differ by it have the same hash -
    found by probing the library's own __hash__ as a black box (empty when there is none in
    range).  Distinct values with equal hashes are legitimate; code that takes the hash for the
    identity of a layout is not."""
    if kind not in _OFFSETS:
        from pycaption.geometry import Point, Size, Stretch, UnitEnum
        cls = Point if kind == "point" else Stretch

        def mk(x, y):
            return cls(Size(x, UnitEnum.PERCENT), Size(y, UnitEnum.PERCENT))
        offs = []
        for bx, by in ((50, 50), (0, 100), (100, 0), (0, 0), (100, 100)):
            h = hash(mk(bx, by))
            for x in range(0, 101):
                for y in range(0, 101):
                    if (x, y) != (bx, by) and hash(mk(x, y)) == h and [x - bx, y - by] not in offs:
                        offs.append([x - bx, y - by])
        _OFFSETS[kind] = offs
    return _OFFSETS[kind]


def twin_layouts(draw, base):
    """Layouts that are easily confused with `base`: same hash of a component, or the same
    numbers in another component."""
    import json as _json
    twins = []
    kind = draw(st.sampled_from(["hash-origin", "hash-extent", "swap", "swap"]))
    if kind == "swap":
        # an origin-only layout and an extent-only layout with the same two numbers
        nums = base.get("origin") or base.get("extent") or [[50, "%"], [50, "%"]]
        a = {"origin": _json.loads(_json.dumps(nums)), "extent": None, "padding": base.get("padding"),
             "align": base.get("align"), "webvtt": None}
        b = {"origin": None, "extent": _json.loads(_json.dumps(nums)), "padding": base.get("padding"),
             "align": base.get("align"), "webvtt": None}
        return [a, b], kind
    part = "origin" if kind == "hash-origin" else "extent"
    offs = hash_offsets("point" if part == "origin" else "stretch")
    if not offs:
        return [], kind
    dx, dy = offs[draw(st.integers(0, len(offs) - 1))]
    x = draw(st.integers(max(0, -dx), min(100, 100 - dx)))
    y = draw(st.integers(max(0, -dy), min(100, 100 - dy)))
    a = _json.loads(_json.dumps(base))
    a["origin"] = a.get("origin") or [[10, "%"], [10, "%"]]
    a["extent"] = a.get("extent") or [[20, "%"], [20, "%"]]
    a[part] = [[x, "%"], [y, "%"]]
    b = _json.loads(_json.dumps(a))
    b[part] = [[x + dx, "%"], [y + dy, "%"]]
    return [a, b], kind


PREV_SET = {"langs": [{"code": "en", "layout": {"origin": [[20, "%"], [20, "%"]], "extent": [[60, "%"], [60, "%"]],
                                                  "padding": None, "align": ["center", "top"], "webvtt": None},
                       "cues": [{"start": 0, "end": 900000, "style": {}, "layout": None,
                                 "nodes": [{"t": "earlier", "layout": None}]}]}],
            "styles": {}, "layout": None}


def _opt(s, n=2):
    return st.one_of(st.none(), *([s] * n))


# ------------------------------------------------------------------ DFXP round trip

def dfxp_strategy(tier):
    @st.composite
    def build(draw):
        pool = draw(st.lists(layout_s(), min_size=1, max_size=3))
        if draw(st.integers(0, 3)) == 0:
            # a layout that differs from another one only by float noise (30.3 vs 10.1 + 20.2):
            # both print alike, both must keep their position
            import json as _json
            twin = _json.loads(_json.dumps(pool[0]))
            for part in ("origin", "extent"):
                if twin.get(part):
                    twin[part][0][0] = twin[part][0][0] + draw(st.sampled_from([1e-9, 3e-12, 0.001, -1e-9]))
                    if twin[part][0][0] < 0:
                        twin[part][0][0] = 1e-9
                    break
            pool = pool + [twin]
        forced = []
        if draw(st.integers(0, 3)) == 0:
            # two layouts that are easily taken for one another, both used in the document
            forced, _kind = twin_layouts(draw, pool[0])
            pool = pool + forced
        pick = st.sampled_from(pool)
        lang_layout = draw(_opt(pick, 1))
        cues = []
        for ci in range(max(len(forced), draw(st.integers(1, 3)))):
            lc = forced[ci] if ci < len(forced) else draw(_opt(pick))
            nodes = []
            k = 0
            for seg in range(draw(st.integers(1, 3))):
                if seg:
                    nodes.append({"br": 1, "layout": lc})
                if draw(st.integers(0, 2)) == 0:
                    # a style span with its own layout, or without one (then it inherits)
                    ls = draw(st.one_of(pick, pick, st.none()))
                    # (the style may be empty - a span written for its region only - and a
                    # hand-built end node need not repeat the layout)
                    sc = draw(st.sampled_from([{"italics": True}, {"italics": True}, {}, {"class": "x"}]))
                    le = ls if draw(st.integers(0, 2)) else None
                    nodes.append({"s": True, "c": sc, "layout": ls})
                    nodes.append({"t": f"c{ci}s{k}", "layout": ls})
                    nodes.append({"s": False, "c": sc, "layout": le})
                else:
                    nodes.append({"t": f"c{ci}t{k}", "layout": lc if draw(st.booleans()) else None})
                k += 1
            cues.append({"start": 1000000 * (ci + 1), "end": 1000000 * (ci + 1) + 900000,
                         "nodes": nodes, "style": {}, "layout": lc})
        return {"set": {"langs": [{"code": "en", "layout": lang_layout, "cues": cues}],
                        "styles": {}, "layout": None},
                "fit": draw(st.booleans()), "reuse": draw(st.integers(0, 3)) == 0,
                # the language option: absent, the language of the set, or one it does not have
                # (then everything is written) - keyword or positional
                "force": draw(st.sampled_from([None, None, "en", "zz"])), "force_pos": draw(st.booleans()),
                "share": draw(st.booleans())}
    return build()


def _canon(L, defaults=True):
    """(origin, extent, padding, align) tuple of plain values with DFXP defaults applied."""
    if L is None:
        L = {}
    o = tuple(tuple(x) for x in L["origin"]) if L.get("origin") else None
    e = tuple(tuple(x) for x in L["extent"]) if L.get("extent") else None
    p = None
    if L.get("padding"):
        p = tuple(tuple(x) if x is not None else (0, "%") for x in L["padding"])
    a = L.get("align") or [None, None]
    if defaults:
        a = (a[0] or "start", a[1] or "bottom")
    else:
        a = tuple(a)
    return (_nums(o), _nums(e), _nums(p), a)


def _nums(t):
    if t is None:
        return None
    return tuple((float(v), u) for v, u in t)


def _outside_safe_area(m):
    Ls = [m["langs"][0].get("layout")]
    for c in m["langs"][0]["cues"]:
        Ls.append(c.get("layout"))
        Ls += [n.get("layout") for n in c["nodes"]]
    return any(L and L.get("origin") and (L["origin"][0][0] > 90 or L["origin"][1][0] > 95) for L in Ls)


def _same_layout(a, b):
    """canonical layouts equal up to the two printed decimals"""
    if a[3] != b[3]:
        return False
    for x, y in zip(a[:3], b[:3]):
        if (x is None) != (y is None):
            return False
        if x is None:
            continue
        if len(x) != len(y):
            return False
        for (v1, u1), (v2, u2) in zip(x, y):
            if u1 != u2 or abs(v1 - v2) > 0.005 + 1e-9:
                return False
    return True


def check_dfxp(case, rec):
    m = case["set"]
    if case["fit"] and _outside_safe_area(m):
        # fit-to-screen is only specified for origins inside the safe area
        case = dict(case, fit=False)
        rec.label("fit-dropped:origin-outside-safe-area")
    cs = model.to_pycaption(m)
    if case.get("share"):
        model.share_layouts(cs)
        rec.label("shared-layout-objects")
    writer, reader = DFXPWriter(fit_to_screen=case["fit"]), DFXPReader()
    if case.get("reuse"):
        # both objects have handled another document before (different fit option first)
        try:
            DFXPWriter(fit_to_screen=not case["fit"]).write(model.to_pycaption(m))
            reader.read(writer.write(model.to_pycaption(PREV_SET)))
        except Exception:  # noqa
            pass
        rec.label("reused-objects")
    with must("DFXPWriter.write"):
        if case.get("force"):
            out = writer.write(cs, case["force"]) if case.get("force_pos") else writer.write(cs, force=case["force"])
            rec.label("force-option")
        else:
            out = writer.write(cs)
    with must("DFXPReader.read of DFXPWriter output"):
        back = reader.read(out)
    lang = m["langs"][0]
    caps = back.get_captions("en")
    require(len(caps) == len(lang["cues"]), lambda: f"{len(caps)} captions after the round trip, {len(lang['cues'])} before")
    layouts_seen = set()
    for ci, (cue, cap) in enumerate(zip(lang["cues"], caps)):
        exp = []
        n_layouts = []
        for n in cue["nodes"]:
            if "t" in n:
                E = n.get("layout") or cue.get("layout") or lang.get("layout")
                for ch in n["t"]:
                    if not ch.isspace():
                        exp.append((ch, E))
                        n_layouts.append((n.get("layout"),))
        got = []
        for n in cap.nodes:
            if n.type_ == 1:
                for ch in n.content:
                    if not ch.isspace():
                        got.append((ch, n.layout_info))
        require([c for c, _ in exp] == [c for c, _ in got],
                lambda: f"cue {ci}: text changed in DFXP round trip: {''.join(c for c, _ in got)!r}")
        for k, ((ch, E), (_, O)) in enumerate(zip(exp, got)):
            ce = _canon(E)
            co = _canon(model.dump_layout(O))
            layouts_seen.add(ce)
            from_lang = E is not None and not (n_layouts[k][0] or cue.get("layout"))
            if case["fit"] and from_lang and E.get("origin") and rec.is_open("dfxp-div-layout-not-fitted"):
                # open finding (same root cause as C13's): DFXPWriter does not run the
                # language-level layout through fit_to_screen; compare everything but the extent
                rec.excluded_known("dfxp-div-layout-not-fitted")
                ce = (ce[0], None, ce[2], ce[3])
                co = (co[0], None, co[2], co[3])
            elif case["fit"] and E and E.get("origin"):
                _check_fit(E, co, ci, ch)
                ce = (ce[0], None, ce[2], ce[3])
                co = (co[0], None, co[2], co[3])
            require(_same_layout(ce, co), lambda: f"cue {ci} char {ch!r} (#{k}): layout after round trip "
                                      f"{co}, effective input layout {ce}; output: {out[:900]!r}")
    levels = sum(1 for x in ([lang.get("layout")] + [c.get("layout") for c in lang["cues"]]) if x)
    rec.nontrivial(len(layouts_seen) >= 2 or levels >= 2)
    rec.label("fit" if case["fit"] else "nofit")
    rec.label(f"layouts:{min(len(layouts_seen), 3)}")


def _check_fit(E, co, ci, ch):
    R = {"origin": [Fraction(str(E["origin"][0][0])), Fraction(str(E["origin"][1][0]))],
         "extent": [Fraction(str(E["extent"][0][0])), Fraction(str(E["extent"][1][0]))] if E.get("extent") else None}
    fe, kind = _fit(R)
    ext = co[1]
    if kind == "outside":
        return
    require(ext is not None, f"cue {ci}: fit_to_screen on but no extent after round trip")
    w, h = Fraction(str(ext[0][0])), Fraction(str(ext[1][0]))
    x, y = R["origin"]
    require(x + w <= 90 + Fraction(11, 1000) and y + h <= 95 + Fraction(11, 1000),
            lambda: f"cue {ci} char {ch!r}: region reaches ({float(x + w)}, {float(y + h)}) > (90, 95)")
    if kind in ("missing", "fits"):
        require(_close(w, fe[0]) and _close(h, fe[1]),
                lambda: f"cue {ci} char {ch!r}: extent {ext} after round trip, expected {[float(v) for v in fe]} ({kind})")


# ------------------------------------------------------------------ WebVTT settings

def webvtt_strategy(tier):
    @st.composite
    def build(draw):
        pool = draw(st.lists(layout_s(need_origin=True, small_padding=True), min_size=1, max_size=3))
        pick = st.sampled_from(pool)
        lang_layout = draw(_opt(pick, 1))
        cues = []
        for ci in range(draw(st.integers(1, 3))):
            lc = draw(_opt(pick))
            explicit = draw(st.booleans())
            nodes = []
            nn = draw(st.integers(1, 3))
            # trailing layout-less nodes after positioned ones take the caption's (or language's)
            # layout; a layout-less node BEFORE a positioned one has no specified cue
            trailing_none = draw(st.integers(0, nn - 1)) if explicit and draw(st.integers(0, 2)) == 0 else 0
            for k in range(nn):
                positioned = explicit and k < nn - trailing_none
                lay_k = draw(pick) if positioned else None
                if k:
                    # a line break may carry a layout of its own (readers give it the layout of
                    # the text around it); it has no characters, so it decides nothing
                    nodes.append({"br": 1, "layout": draw(st.sampled_from([None, None, lay_k, draw(pick)]))})
                nodes.append({"t": f"c{ci}n{k}", "layout": lay_k})
            cues.append({"start": 1000000 * (ci + 1), "end": 1000000 * (ci + 1) + 900000,
                         "nodes": nodes, "style": {}, "layout": lc})
        # a second language with a language-level layout of its own, listed before or after the
        # language that is written (then selected with lang=)
        other = None
        if draw(st.integers(0, 3)) == 0:
            other = {"layout": draw(_opt(pick, 3)), "first": draw(st.booleans()), "positional": draw(st.booleans())}
        return {"set": {"langs": [{"code": "en-US", "layout": lang_layout, "cues": cues}],
                        "styles": {}, "layout": None},
                "fit": draw(st.booleans()), "reuse": draw(st.integers(0, 3)) == 0, "other": other,
                # all layouts here are percentages, so relativize=False is a legal option value;
                # equal layouts may be one shared object (API-built sets)
                "relativize": draw(st.sampled_from([True, True, False])), "share": draw(st.booleans())}
    return build()


def _expected_settings(L, fit):
    """Reference cue settings {align?, position?, line?, size?} as Fractions / strings."""
    exp = {}
    a = (L.get("align") or [None, None])[0] if L else None
    al = a or "start"
    if al != "center":
        exp["align"] = al
    if not L:
        return {}
    pad = [Fraction(str(x[0])) if x is not None else Fraction(0) for x in (L.get("padding") or [None] * 4)]
    b, _a, s_, en = pad
    if L.get("origin"):
        x, y = Fraction(str(L["origin"][0][0])), Fraction(str(L["origin"][1][0]))
        exp["position"] = x + s_
        exp["line"] = y + b
        w = Fraction(str(L["extent"][0][0])) if L.get("extent") else None
        size_judged = True
        if fit:
            R = {"origin": [x, y], "extent": [w, Fraction(str(L["extent"][1][0]))] if L.get("extent") else None}
            fe, kind = _fit(R)
            if kind in ("missing", "fits"):
                w = fe[0]
            elif kind == "outside" or kind == "clamped":
                size_judged = False
        if w is not None and size_judged:
            exp["size"] = w - s_ - en
        elif not size_judged:
            exp["size"] = "unjudged"
    return exp


def check_webvtt(case, rec):
    m = case["set"]
    if case["fit"] and _outside_safe_area(m):
        case = dict(case, fit=False)
        rec.label("fit-dropped:origin-outside-safe-area")
    lang = m["langs"][0]
    full = m
    other = case.get("other")
    if other:
        o = {"code": "fr-FR", "layout": other["layout"],
             "cues": [{"start": 500000, "end": 800000, "nodes": [{"t": "autre", "layout": None}], "style": {},
                       "layout": None}]}
        full = dict(m, langs=[o, lang] if other["first"] else [lang, o])
        rec.label("second-language")
    cs = model.to_pycaption(full)
    if case.get("share"):
        model.share_layouts(cs)
        rec.label("shared-layout-objects")
    writer = WebVTTWriter(fit_to_screen=case["fit"], relativize=case.get("relativize", True))
    if case.get("reuse"):
        try:
            WebVTTWriter(fit_to_screen=not case["fit"]).write(model.to_pycaption(m))
            writer.write(model.to_pycaption(PREV_SET))
        except Exception:  # noqa
            pass
        rec.label("reused-objects")
    with must("WebVTTWriter.write"):
        if other:
            out = writer.write(cs, "en-US") if other["positional"] else writer.write(cs, lang="en-US")
        else:
            out = writer.write(cs)
    try:
        cues = P.parse_webvtt(out)
    except P.RefParseError as e:
        raise Violation(f"webvtt output not well-formed: {e}: {out[:400]!r}")
    # expected cue list
    def expected(strict):
        # strict: a layout whose alignment is absent and one whose Alignment has neither half
        # set are different layouts (they compare unequal); loose: they are the same.  The
        # property does not say which, so both groupings are accepted.
        exp = []
        for cue in lang["cues"]:
            groups = []
            for n in cue["nodes"]:
                if "t" not in n:
                    continue
                L = n.get("layout")
                key = _canon(L, defaults=False) if L else None
                if strict and L:
                    key = (key, L.get("align") is None)
                if groups and groups[-1][0] == key:
                    groups[-1][2].append(n["t"])
                else:
                    groups.append([key, L, [n["t"]]])
            for key, L, texts in groups:
                eff = L or cue.get("layout") or lang.get("layout")
                exp.append((cue["start"], cue["end"], eff, texts))
        return exp
    exp = expected(False)
    if len(cues) != len(exp):
        alt = expected(True)
        if len(alt) == len(cues):
            exp = alt
            rec.label("absent-vs-empty-alignment-split")
    require(len(cues) == len(exp), lambda: f"webvtt: {len(cues)} cues written, expected {len(exp)} (one per layout group): {out[:600]!r}")
    distinct = set()
    for i, (c, (a, b, L, texts)) in enumerate(zip(cues, exp)):
        require((c["start"], c["end"]) == (a, b), lambda: f"webvtt: cue {i} times {c['start']}-{c['end']}, expected {a}-{b}")
        got_text = [t for t in P.vtt_payload_lines(c["lines"]) if t.strip()]
        require([t.strip() for t in got_text] == texts, lambda: f"webvtt: cue {i} text {got_text}, expected {texts}")
        es = _expected_settings(L, case["fit"])
        sm = c["settings_map"]
        distinct.add(_canon(L, defaults=False) if L else None)
        require(sm.get("align") == es.get("align"),
                lambda: f"webvtt: cue {i} align {sm.get('align')!r}, expected {es.get('align')!r} for layout {L}; line: {c['settings']!r}")
        for k in ("position", "line", "size"):
            if es.get(k) == "unjudged":
                continue
            if k in es:
                require(k in sm, lambda: f"webvtt: cue {i} has no {k} setting, expected {float(es[k])}% for layout {L}; settings {c['settings']!r}")
                require(_close(_pct(sm[k], signed=True), es[k]),
                        lambda: f"webvtt: cue {i} {k}:{sm[k]}, expected {float(es[k])}% for layout {L}")
            else:
                require(k not in sm, lambda: f"webvtt: cue {i} has {k}:{sm.get(k)} but the layout gives none ({L})")
    rec.nontrivial(len(distinct) >= 2 or any((L or {}).get("padding") for _, _, L, _ in exp))
    rec.label("fit" if case["fit"] else "nofit")
    rec.label(f"cues-per-caption:{'split' if len(exp) > len(lang['cues']) else 'single'}")


# ------------------------------------------------------------------ WebVTT verbatim settings

SETTINGS = ["align:left", "line:10%", "position:20% size:50%", "align:center line:0",
            "position:50%,start line:50% size:50%", "vertical:rl", "align:end position:100%",
            "line:-1 align:right", "region:fred", "size:33.33%   line:5%"]


def verbatim_strategy(tier):
    # settings from a small grammar as well: key:value tokens over current, legacy and odd values
    key = st.sampled_from(["align", "line", "position", "size", "vertical", "region"])
    val = st.sampled_from(["left", "right", "center", "middle", "start", "end", "50%", "0%", "100%", "33.33%",
                           "50%,start", "10%,line-left", "-1", "0", "5", "rl", "lr", "fred", "MIDDLE"])
    tok = st.tuples(key, val).map(lambda t: f"{t[0]}:{t[1]}")
    gen_settings = st.lists(tok, min_size=1, max_size=4).map(" ".join)
    return st.lists(st.one_of(st.none(), st.sampled_from(SETTINGS), gen_settings), min_size=1, max_size=5).map(
        lambda xs: {"settings": xs})


def check_verbatim(case, rec):
    cues = [{"id": None, "start": f"00:{i:02d}.000", "end": f"00:{i:02d}.900", "settings": s,
             "lines": [f"cue {i}"]} for i, s in enumerate(case["settings"])]
    doc = S.webvtt_doc(cues)
    with must("WebVTTReader.read"):
        cs = WebVTTReader().read(doc)
    with must("WebVTTWriter.write"):
        out = WebVTTWriter().write(cs)
    try:
        got = P.parse_webvtt(out)
    except P.RefParseError as e:
        raise Violation(f"webvtt output not well-formed: {e}")
    require(len(got) == len(cues), "webvtt verbatim: cue count changed")
    for i, (g, s) in enumerate(zip(got, case["settings"])):
        require(g["settings"] == " ".join((s or "").split()) or g["settings"] == (s or "").strip(),
                lambda: f"webvtt: cue {i} settings written {g['settings']!r}, read {s!r}")
    rec.nontrivial(any(case["settings"]))
    rec.label("verbatim")


def subchecks(tier):
    return [
        Sub("dfxp", check_dfxp, strategy=dfxp_strategy, examples=(5000, 150000), min_per_shard=200),
        Sub("webvtt", check_webvtt, strategy=webvtt_strategy, examples=(6000, 200000), min_per_shard=300),
        Sub("verbatim", check_verbatim, strategy=verbatim_strategy, examples=(2000, 50000), min_per_shard=200),
    ]
