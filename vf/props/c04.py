"""C04 - read text equals authored text: entities decoded once, markup stripped."""
from hypothesis import strategies as st

from .. import gen, model
from ..ref import serial as S
from ..runner import Sub, must, require

from pycaption import DFXPReader, MicroDVDReader, SAMIReader, SRTReader, WebVTTReader

PROPERTY = "C04"
RULE = ("abstract cues (1-3 per document, 1-3 lines each, each line 1-4 runs of authored text "
        "over the metacharacter pool + printable Unicode) are serialised by independent "
        "builders with a generated spelling plan: per-character entity spelling (named / "
        "decimal / hex where the grammar has them; raw otherwise), literal text that looks like "
        "an entity, line-break markup variants, wrapping of text over indented source lines "
        "(DFXP, SAMI), inline markup around runs (DFXP span with/without styling, nested; SAMI "
        "i/b/u/span/font; WebVTT i/b/u/c.cls/ruby+rt/lang tags, timestamp tags in both spellings ([hh+:]mm:ss.ttt), voice tags, unknown "
        "tags from a pool that shares first letters with known tags or consists of a known name followed by - : _ or a digit, with or without their end tags). Expected display text = "
        "concatenated authored runs (voice -> 'Name: ' prefix, unknown tag -> literal), compared "
        "per line after trimming and collapsing whitespace. Non-trivial: the document contains "
        "an entity or look-alike, a source-line wrap, or a tag. "
        'In a quarter of the cases the reader object has read another document before; XML '
        'comments are placed after runs in DFXP / SAMI. '
        "Runs are separated by nothing, a blank or a source-line wrap (with / without blanks or "
        "tabs before the line end); HTML named entities come from the full HTML 4 table (252 "
        "names, incl. pairs that differ only in case); SRT / WebVTT / MicroDVD lines end in LF, "
        "CRLF or bare CR. DFXP runs may be spelled as CDATA sections (whole run or its second "
        "half), which may themselves run over several source lines. ")
ASSUMPTIONS = [
    "raw '<' or '&' is never emitted in XML/HTML/WebVTT text (documents are well-formed)",
    "texts avoid '<html' and 'no closed captioning available' (SAMIReader rejects those by "
    "design, pinned by tests)",
    "whitespace is compared after trimming each line and collapsing runs (NBSP counts as space)",
]

_TEXT_ATOMS = gen.META + gen.META_PIPE + ["a b", "\u00e9", "a\u00a0b", "\u00a9 2020", "x y z", "&lt;b&gt;", "&amp;lt;",
                                          "&#60;b&#62;", "AT&T", "1 < 2 > 0", "a;>b", "<bar>",
                                          "<input>", "tom & jerry", "</v>", "<v>", "<u2>",
                                          "\u00c9mile \u00c7a \u00d1u", "\u03a9 \u03c9", "\u2020 \u2021",
                                          "5\u2032 3\u2033", "\u00c0 \u00e0 \u00d6 \u00f6", "\u20ac 5 \u00bd",
                                          # words that end in a space other than U+0020 (a source-line wrap
                                          # may follow them directly)
                                          "Prix:\u00a0", "100\u00a0", "\u65e5\u672c\u3000", "em\u2003", "\u00a0"]


def _authored(pipe=True):
    """authored run text: printable, may contain any metacharacter, no newline"""
    return gen.lines(meta=True, pipe=pipe, markers=False, max_atoms=4,
                     extra=[a for a in _TEXT_ATOMS if pipe or "|" not in a])


# ------------------------------------------------------------------ entity spelling plans

_XML_NAMED = {"<": "lt", ">": "gt", "&": "amp", '"': "quot", "'": "apos"}
_HTML_NAMED = dict(_XML_NAMED)
# the HTML 4 entity set (252 names; names differing only in case - Eacute / eacute, Omega / omega,
# Dagger / dagger, Prime / prime - denote different characters)
from html.entities import codepoint2name as _CP2NAME
_HTML_NAMED.update({chr(cp): name for cp, name in _CP2NAME.items() if chr(cp) not in _HTML_NAMED})


def _numeric(ch, draw):
    k = draw(st.integers(0, 2))
    if k == 0:
        return "&#%d;" % ord(ch)
    if k == 1:
        return "&#x%x;" % ord(ch)
    return "&#x%X;" % ord(ch)


def _encode(text, draw, named, must_escape, numeric_ok=True, rate=12):
    out = []
    for ch in text:
        if ch in must_escape:
            forms = ["&%s;" % named[ch]]
            if numeric_ok:
                forms.append(_numeric(ch, draw))
            out.append(draw(st.sampled_from(forms)))
        elif ch in named and draw(st.integers(0, 2)) == 0:
            out.append("&%s;" % named[ch])
        elif numeric_ok and ch != " " and draw(st.integers(0, rate)) == 0:
            out.append(_numeric(ch, draw))
        else:
            out.append(ch)
    return "".join(out)


def _wrap(enc, draw):
    """Wrap encoded text over several indented source lines at spaces (not inside entities)."""
    idx = [i for i, ch in enumerate(enc) if ch == " " and 0 < i < len(enc) - 1
           and enc[i - 1] != " " and enc[i + 1] != " "]
    if not idx:
        return enc, False
    k = draw(st.integers(1, min(2, len(idx))))
    cut = sorted(draw(st.lists(st.sampled_from(idx), min_size=k, max_size=k, unique=True)))
    # (a wrap may also leave a completely empty source line behind)
    ind = draw(st.sampled_from(["\n", "\n    ", "\n\t", "\r\n      ", "\n\n    ", "\r\n\r\n  ", "\n\n"]))
    out = []
    last = 0
    for c in cut:
        out.append(enc[last:c])
        last = c + 1
    out.append(enc[last:])
    return ind.join(out), True


# ------------------------------------------------------------------ DFXP

def dfxp_strategy(tier):
    @st.composite
    def run(draw):
        text = draw(_authored())
        enc = _encode(text, draw, _XML_NAMED, "<&")
        wrapped = False
        cdata = False
        if "]]>" not in text and draw(st.integers(0, 7)) == 0:
            # the same characters, spelled as a CDATA section (whole run or its second half)
            k = draw(st.sampled_from([0, len(text) // 2]))
            inner = text[k:]
            if draw(st.integers(0, 2)) == 0:
                # a CDATA section may run over several source lines like any other text
                inner, wrapped = _wrap(inner, draw)
            enc = _encode(text[:k], draw, _XML_NAMED, "<&") + "<![CDATA[" + inner + "]]>"
            cdata = True
        elif draw(st.integers(0, 3)) == 0:
            enc, wrapped = _wrap(enc, draw)
        tag = draw(st.sampled_from([None, None, None, "it", "plain", "nested", "bold"]))
        if tag == "it":
            enc = f'<span tts:fontStyle="italic">{enc}</span>'
        elif tag == "plain":
            enc = f"<span>{enc}</span>"
        elif tag == "bold":
            enc = f'<span tts:fontWeight="bold" tts:color="red">{enc}</span>'
        elif tag == "nested":
            enc = f'<span tts:fontStyle="italic"><span tts:textDecoration="underline">{enc}</span></span>'
        comment = draw(st.integers(0, 7)) == 0
        if comment:     # a comment displays nothing
            enc = enc + draw(st.sampled_from(["<!-- note -->", "<!--x-->", "<!-- a & b < c -->"]))
        return {"text": text, "enc": enc, "wrapped": wrapped, "tag": tag, "comment": comment, "cdata": cdata}

    @st.composite
    def build(draw):
        cues = []
        for _ in range(draw(st.integers(1, 3))):
            lines = []
            for _ in range(draw(st.integers(1, 3))):
                runs = draw(st.lists(run(), min_size=1, max_size=3))
                # between runs: nothing, a blank, or a source-line wrap (with or without blanks /
                # tabs before the line end) - all whitespace, displayed as one space
                seps = [draw(st.sampled_from(["", " ", " ", "", " ", " ", "", " ", " ", "", " ", " ", "", " ", " ",
                                              " \n      ", "\t\n\t", " \r\n    ", "\n      "])) for _ in runs]
                lines.append({"runs": runs, "seps": seps})
            cues.append({"lines": lines, "br": draw(st.sampled_from(["<br/>", "<br />", "<br></br>", "<br/>\n        "])),
                         "pretty": draw(st.booleans()),
                         "lead": draw(st.sampled_from(["\n        ", "\n        ", " \n        ", "\t\n  "]))})
        return {"fmt": "dfxp", "reuse": draw(st.integers(0, 3)) == 0, "cues": cues,
                "xml_space": draw(st.sampled_from([None, None, None, "div", "body"]))}
    return build()


def _line_enc(line):
    return "".join(r["enc"] + s for r, s in zip(line["runs"], line["seps"]))


def _line_text(line):
    return "".join(r["text"] + s for r, s in zip(line["runs"], line["seps"]))


def _expected(cues):
    return [[model.norm_line(_line_text(l)) for l in c["lines"]] for c in cues]


def _nontrivial(case):
    for c in case["cues"]:
        for l in c["lines"]:
            for r in l["runs"]:
                if r.get("tag") or r.get("wrapped") or r.get("comment") or r.get("cdata") or r["enc"] != r["text"] or "&" in r["text"]:
                    return True
    return False


PREV = {
    "dfxp": ('<tt xmlns="http://www.w3.org/ns/ttml" xml:lang="en"><body><div xml:lang="en">'
             '<p begin="9s" end="10s">earlier <span tts:fontStyle="italic">document</span><br/>x</p></div></body></tt>'),
    "sami": ('<SAMI><HEAD><STYLE TYPE="text/css"><!-- .ENCC {lang: en-US;} --></STYLE></HEAD><BODY>'
             '<SYNC Start=9000><P Class=ENCC>earlier <i>document</i><br>x</SYNC></BODY></SAMI>'),
    "webvtt": "WEBVTT\n\n00:09.000 --> 00:10.000\n<v Bob>earlier <i>document</i>\n",
    "srt": "1\n00:00:09,000 --> 00:00:10,000\nearlier document\n",
    "microdvd": "{225}{250}earlier|document\n",
}


def _reader(cls, fmt, case, rec):
    r = cls()
    if case.get("reuse"):
        try:
            r.read(PREV[fmt])
        except Exception:  # noqa
            pass
        rec.label("reused-reader")
    return r


def _compare(caps, exp, fmt, doc):
    require(len(caps) == len(exp), lambda: f"{fmt}: {len(caps)} captions for {len(exp)} cues: {doc[:500]!r}")
    for i, (c, e) in enumerate(zip(caps, exp)):
        require(c is not None, lambda: f"{fmt}: caption {i} of the returned list is None; document: {doc[:700]!r}")
        got = model.norm_lines(model.cue_lines_py(c))
        e = [x for x in e if x]
        require(got == e, lambda: f"{fmt}: cue {i} reads {got!r}, authored text displays as {e!r}; document: {doc[:700]!r}")


def check_dfxp(case, rec):
    ps = []
    for i, c in enumerate(case["cues"]):
        inner = c["br"].join(_line_enc(l) for l in c["lines"])
        if c["pretty"]:
            inner = c.get("lead", "\n        ") + inner + "\n      "
        ps.append({"attrs": [("begin", f"00:00:{i:02d}.000"), ("end", f"00:00:{i:02d}.900")], "inner": inner})
    if case.get("xml_space"):
        # the nearest xml:space decides: "default" on each paragraph overrides an outer "preserve"
        for p_ in ps:
            p_["attrs"] = list(p_["attrs"]) + [("xml:space", "default")]
        doc = S.dfxp_doc([{"lang": "en", "ps": ps, "attrs": [("xml:space", "preserve")]}], tt_lang="en",
                         body_attrs=[("xml:space", "preserve")] if case["xml_space"] == "body" else ())
        rec.label("xml-space-preserve-outside")
    else:
        doc = S.dfxp_doc([{"lang": "en", "ps": ps}], tt_lang="en")
    if _skip_known(case, rec, "dfxp"):
        return
    with must("DFXPReader.read"):
        cs = _reader(DFXPReader, "dfxp", case, rec).read(doc)
    _compare(cs.get_captions("en"), _expected(case["cues"]), "dfxp", doc)
    _labels(case, rec)


def _labels(case, rec):
    rec.nontrivial(_nontrivial(case))
    rec.label(case["fmt"])
    for c in case["cues"]:
        for l in c["lines"]:
            for r in l["runs"]:
                if r.get("wrapped"):
                    rec.label(case["fmt"] + "-wrapped")
                if r.get("tag"):
                    rec.label(case["fmt"] + "-tag")
                if r.get("comment"):
                    rec.label(case["fmt"] + "-comment")
                if "&" in r["enc"]:
                    rec.label(case["fmt"] + "-entity")


def _wrap_at_tag_boundary(case):
    """Input shape of the open finding: a source-line wrap with no blank before it that touches
    a tag or comment boundary while text follows on the same caption line, or any wrap that
    is all there is between two tags (the readers take the newline + indentation at the edge of
    a text node for indentation and drop it)."""
    for c in case["cues"]:
        for l in c["lines"]:
            runs, seps = l["runs"], l["seps"]
            for i in range(len(runs) - 1):
                # (a CDATA section is a text node of its own: its edges are boundaries too)
                left = runs[i].get("tag") or runs[i].get("comment") or runs[i].get("cdata")
                right = runs[i + 1].get("tag") or runs[i + 1]["enc"].startswith("<![CDATA[")
                if seps[i][:1] in ("\n", "\r") and (left or right):
                    return True
                # a white-space-only text node holding a wrap, between two tags / comments
                if ("\n" in seps[i] or "\r" in seps[i]) and left and right:
                    return True
    return False


def _skip_known(case, rec, fmt):
    """Input-shaped exclusions of open known findings (only active while listed as open)."""
    runs = [r for c in case["cues"] for l in c["lines"] for r in l["runs"]]
    if fmt in ("dfxp", "sami") and rec.is_open(f"{fmt}-wrap-at-tag-boundary") and _wrap_at_tag_boundary(case):
        rec.excluded_known(f"{fmt}-wrap-at-tag-boundary")
        return True
    if fmt in ("dfxp", "sami") and rec.is_open(f"{fmt}-wrapped-text-lost") and any(r.get("wrapped") for r in runs):
        rec.excluded_known(f"{fmt}-wrapped-text-lost")
        return True
    if fmt == "sami":
        if rec.is_open("sami-double-decode") and any(
                "&" in r["text"] or ("&#" in r["enc"] and any(ch in r["text"] for ch in "<>"))
                for r in runs):
            rec.excluded_known("sami-double-decode")
            return True
        if rec.is_open("sami-semicolon-gt") and any(";>" in r["enc"] for r in runs):
            rec.excluded_known("sami-semicolon-gt")
            return True
    if fmt == "webvtt":
        if rec.is_open("webvtt-unknown-tag-stripped") and any(r.get("tag") == "unknown-prefix" for r in runs):
            rec.excluded_known("webvtt-unknown-tag-stripped")
            return True
    return False


# ------------------------------------------------------------------ SAMI

def sami_strategy(tier):
    @st.composite
    def run(draw):
        text = draw(_authored().filter(lambda s: "<html" not in s.lower()))
        enc = _encode(text, draw, _HTML_NAMED, "<&")
        wrapped = False
        if draw(st.integers(0, 3)) == 0:
            enc, wrapped = _wrap(enc, draw)
        tag = draw(st.sampled_from([None, None, None, "i", "b", "u", "span", "font", "nested"]))
        if tag in ("i", "b", "u"):
            enc = f"<{tag}>{enc}</{tag}>"
        elif tag == "span":
            enc = f'<span style="font-style:italic;">{enc}</span>'
        elif tag == "font":
            enc = f'<font color="red">{enc}</font>'
        elif tag == "nested":
            enc = f"<i><b>{enc}</b></i>"
        comment = draw(st.integers(0, 7)) == 0
        if comment:
            enc = enc + draw(st.sampled_from(["<!-- note -->", "<!--x-->", "<!-- a & b < c -->"]))
        return {"text": text, "enc": enc, "wrapped": wrapped, "tag": tag, "comment": comment}

    @st.composite
    def build(draw):
        cues = []
        for _ in range(draw(st.integers(1, 3))):
            lines = []
            for _ in range(draw(st.integers(1, 3))):
                runs = draw(st.lists(run(), min_size=1, max_size=3))
                # between runs: nothing, a blank, or a source-line wrap (with or without blanks /
                # tabs before the line end) - all whitespace, displayed as one space
                seps = [draw(st.sampled_from(["", " ", " ", "", " ", " ", "", " ", " ", "", " ", " ", "", " ", " ",
                                              " \n      ", "\t\n\t", " \r\n    ", "\n      "])) for _ in runs]
                lines.append({"runs": runs, "seps": seps})
            cues.append({"lines": lines, "br": draw(st.sampled_from(["<br>", "<br/>", "<BR>", "<br />", "<br/>\n    "]))})
        return {"fmt": "sami", "reuse": draw(st.integers(0, 3)) == 0, "cues": cues, "upper": draw(st.booleans()),
                "close_p": draw(st.booleans())}
    return build()


def check_sami(case, rec):
    syncs = []
    for i, c in enumerate(case["cues"]):
        inner = c["br"].join(_line_enc(l) for l in c["lines"])
        syncs.append((str(1000 * (i + 1)), [{"cls": "ENCC", "inner": inner}]))
    doc = S.sami_doc(syncs, [("ENCC", "en-US", [("name", "English")])], upper=case["upper"],
                     close_p=case["close_p"])
    if "no closed captioning available" in doc.lower():
        return
    if _skip_known(case, rec, "sami"):
        return
    with must("SAMIReader.read"):
        cs = _reader(SAMIReader, "sami", case, rec).read(doc)
    _compare(cs.get_captions("en-US"), _expected(case["cues"]), "sami", doc)
    _labels(case, rec)


# ------------------------------------------------------------------ WebVTT

_VTT_NAMED = {"<": "lt", ">": "gt", "&": "amp", "\u00a0": "nbsp"}
UNKNOWN_PREFIX = ["bar", "input", "center", "video", "u2", "cite", "break", "vv",
                  # a known tag name followed by something that is neither a blank nor a '.'
                  "c-3po", "i-beam", "b:x", "u-turn", "ruby-text", "lang-en", "v-x", "rt:1", "c_x",
                  "i18n", "b-", "u:"]
UNKNOWN_OTHER = ["foo", "x", "LAUGHING", "para", "font", "1", "span", "div"]


def webvtt_strategy(tier):
    @st.composite
    def run(draw):
        text = draw(_authored().filter(lambda s: "-->" not in s))
        enc = _encode(text, draw, _VTT_NAMED, "<&", numeric_ok=False)
        tag = draw(st.sampled_from([None, None, None, "i", "b", "u", "c", "ruby", "lang", "ts", "voice",
                                    "voice-class", "unknown-prefix", "unknown-other", "nested"]))
        exp = text
        if tag in ("i", "b", "u"):
            enc = f"<{tag}>{enc}</{tag}>"
        elif tag == "c":
            enc = f"<c.loud.red>{enc}</c>"
        elif tag == "ruby":
            enc = f"<ruby>{enc}<rt>rt</rt></ruby>"
            exp = text + "rt"
        elif tag == "lang":
            enc = f"<lang en-GB>{enc}</lang>"
        elif tag == "ts":
            # WebVTT timestamp tag, both spellings of a timestamp: [hh+:]mm:ss.ttt
            hh = draw(st.sampled_from(["", "", "00:", "01:", "10:", "100:"]))
            ts = "<%s%02d:%02d.%03d>" % (hh, draw(st.integers(0, 59)), draw(st.integers(0, 59)),
                                        draw(st.sampled_from([0, 1, 500, 999])))
            enc = ts + enc
        elif tag == "voice":
            name = draw(st.sampled_from(["Bob", "Mary Ann", "Dr. Who"]))
            enc = f"<v {name}>{enc}</v>"
            exp = f"{name}: {text}"
        elif tag == "voice-class":
            name = draw(st.sampled_from(["Bob", "Esme"]))
            enc = f"<v.first.loud {name}>{enc}</v>"
            exp = f"{name}: {text}"
        elif tag in ("unknown-prefix", "unknown-other"):
            nm = draw(st.sampled_from(UNKNOWN_PREFIX if tag == "unknown-prefix" else UNKNOWN_OTHER))
            lit = f"<{nm}>"
            enc = lit + enc
            exp = lit + text
            if draw(st.integers(0, 2)) == 0:       # with its (equally unknown) end tag
                enc += f"</{nm}>"
                exp += f"</{nm}>"
        elif tag == "nested":
            enc = f"<i><b>{enc}</b></i>"
        return {"text": exp, "enc": enc, "tag": tag}

    @st.composite
    def build(draw):
        cues = []
        for _ in range(draw(st.integers(1, 3))):
            lines = []
            for _ in range(draw(st.integers(1, 3))):
                runs = draw(st.lists(run(), min_size=1, max_size=3))
                seps = [draw(st.sampled_from(["", " ", " "])) for _ in runs]
                lines.append({"runs": runs, "seps": seps})
            cues.append({"lines": lines, "ws_line": draw(st.sampled_from([None, None, None, " ", "\t", "  "]))})
        return {"fmt": "webvtt", "reuse": draw(st.integers(0, 3)) == 0, "cues": cues,
                "eol": draw(st.sampled_from(["\n", "\n", "\r\n", "\r"]))}
    return build()


def check_webvtt(case, rec):
    cues = []
    for i, c in enumerate(case["cues"]):
        cues.append({"id": None, "start": f"00:{i:02d}.000", "end": f"00:{i:02d}.900",
                     "settings": None, "lines": [_line_enc(l).strip() for l in c["lines"]]})
    if any("-->" in ln or not ln for c in cues for ln in c["lines"]):
        return
    for c, spec in zip(cues, case["cues"]):
        if spec.get("ws_line") and len(c["lines"]) >= 2:
            # a payload line of blanks only is part of the cue (only an EMPTY line ends it)
            c["lines"].insert(1, spec["ws_line"])
            rec.label("whitespace-only-payload-line")
    doc = S.webvtt_doc(cues, eol=case.get("eol", "\n"))
    if _skip_known(case, rec, "webvtt"):
        return
    with must("WebVTTReader.read"):
        cs = _reader(WebVTTReader, "webvtt", case, rec).read(doc)
    _compare(cs.get_captions("en-US"), _expected(case["cues"]), "webvtt", doc)
    _labels(case, rec)


# ------------------------------------------------------------------ SRT / MicroDVD

def plain_strategy(tier):
    @st.composite
    def build(draw):
        fmt = draw(st.sampled_from(["srt", "microdvd"]))
        cues = []
        for _ in range(draw(st.integers(1, 3))):
            lines = []
            for _ in range(draw(st.integers(1, 3))):
                t = draw(_authored(pipe=(fmt != "microdvd")))
                lines.append({"runs": [{"text": t, "enc": t}], "seps": [""]})
            cues.append({"lines": lines})
        return {"fmt": fmt, "reuse": draw(st.integers(0, 3)) == 0, "cues": cues, "eol": draw(st.sampled_from(["\n", "\n", "\r\n", "\r"]))}
    return build()


def check_plain(case, rec):
    if case["fmt"] == "srt":
        cues = [(f"00:00:{i:02d},000", f"00:00:{i:02d},900", [_line_enc(l) for l in c["lines"]])
                for i, c in enumerate(case["cues"])]
        doc = S.srt_doc(cues, case["eol"])
        with must("SRTReader.read"):
            cs = _reader(SRTReader, "srt", case, rec).read(doc)
    else:
        cues = [(25 * i + 1, 25 * i + 20, "|".join(_line_enc(l) for l in c["lines"]))
                for i, c in enumerate(case["cues"])]
        doc = S.microdvd_doc(cues, None, case["eol"])
        with must("MicroDVDReader.read"):
            cs = _reader(MicroDVDReader, "microdvd", case, rec).read(doc)
    _compare(cs.get_captions(cs.get_languages()[0]), _expected(case["cues"]), case["fmt"], doc)
    rec.nontrivial(any(gen.has_meta(_line_text(l)) for c in case["cues"] for l in c["lines"]))
    rec.label(case["fmt"])


def build_doc(case):
    """(document text, reader class) for a generated case of any of the five formats."""
    fmt = case["fmt"]
    if fmt == "dfxp":
        ps = []
        for i, c in enumerate(case["cues"]):
            inner = c["br"].join(_line_enc(l) for l in c["lines"])
            if c["pretty"]:
                inner = c.get("lead", "\n        ") + inner + "\n      "
            ps.append({"attrs": [("begin", f"00:00:{i:02d}.000"), ("end", f"00:00:{i:02d}.900")], "inner": inner})
        return S.dfxp_doc([{"lang": "en", "ps": ps}], tt_lang="en"), DFXPReader
    if fmt == "sami":
        syncs = []
        for i, c in enumerate(case["cues"]):
            inner = c["br"].join(_line_enc(l) for l in c["lines"])
            syncs.append((str(1000 * (i + 1)), [{"cls": "ENCC", "inner": inner}]))
        return S.sami_doc(syncs, [("ENCC", "en-US", [("name", "English")])], upper=case["upper"],
                          close_p=case["close_p"]), SAMIReader
    if fmt == "webvtt":
        cues = [{"id": None, "start": f"00:{i:02d}.000", "end": f"00:{i:02d}.900", "settings": None,
                 "lines": [_line_enc(l).strip() for l in c["lines"]]} for i, c in enumerate(case["cues"])]
        return S.webvtt_doc(cues, eol=case.get("eol", "\n")), WebVTTReader
    if fmt == "srt":
        cues = [(f"00:00:{i:02d},000", f"00:00:{i:02d},900", [_line_enc(l) for l in c["lines"]])
                for i, c in enumerate(case["cues"])]
        return S.srt_doc(cues, case["eol"]), SRTReader
    cues = [(25 * i + 1, 25 * i + 20, "|".join(_line_enc(l) for l in c["lines"]))
            for i, c in enumerate(case["cues"])]
    return S.microdvd_doc(cues, None, case["eol"]), MicroDVDReader


def subchecks(tier):
    return [
        Sub("dfxp", check_dfxp, strategy=dfxp_strategy, examples=(6000, 200000), min_per_shard=300),
        Sub("sami", check_sami, strategy=sami_strategy, examples=(5000, 200000), min_per_shard=300),
        Sub("webvtt", check_webvtt, strategy=webvtt_strategy, examples=(8000, 300000), min_per_shard=500),
        Sub("plain", check_plain, strategy=plain_strategy, examples=(6000, 200000), min_per_shard=500),
    ]
