"""C01 - reading preserves every cue's start and end instant (text formats)."""
from fractions import Fraction

from hypothesis import strategies as st

from ..ref import serial as S
from ..ref import timeexpr as T
from ..runner import Sub, must, require

from pycaption import DFXPReader, MicroDVDReader, SAMIReader, SRTReader, WebVTTReader

PROPERTY = "C01"
RULE = ("documents are built by independent serialisers from generated timestamp spellings "
        "(fields, not instants), lines ended by LF, CRLF or bare CR: SRT HH+:MM:SS[,mmm]; WebVTT [HH+:]MM:SS.mmm with ids, "
        "settings, NOTE blocks, empty cues and reader options (time shift of either sign - also one that moves cues before zero: none may be lost -, "
        "ignore_timing_errors, lang); DFXP clock time with 0-45 fraction digits or :FF frames, "
        "(WebVTT cue text may begin with NOTE / STYLE / REGION / WEBVTT); offset times n[.d](h|m|s|ms|f), begin+end, begin+dur and begin+end+dur (dur reaching at least as far as end), empty <p> (with, without or with partial timing attributes), 1-2 divs; SAMI "
        "syncs in 1-3 languages (also spaced by exactly 4 s, the default duration of a last cue) with ends given by blank P or the next cue, quoted/unquoted, "
        "upper/lower case; MicroDVD with/without {0}{0}fps header (any decimal rate 1-120 with 0-3 fraction digits; frames biased to those falling on whole microseconds). Expected instants come from "
        "exact Fraction arithmetic on the spelling. Exhaustive legs: MicroDVD frames 0..2.16M "
        "at 25 fps and 0..500k at 10 declared rates (incl. 23.98, whose binary float is not the decimal), all SS:FF pairs, offsets k/1000 s for "
        "k<1e5. Non-trivial: a stamp with hours != 0, a fraction that is not three digits, "
        "frames, an offset metric, begin+dur, a shift != 0, an fps header, or an empty cue. "
        'In a quarter of the cases the reader object has already read another document of the '
        'format (with another language / frame rate). ')
ASSUMPTIONS = [
    "TTML frame rate is 30 (ttp:frameRate is never set in generated documents)",
    "for second fractions longer than six digits either neighbouring microsecond is accepted; "
    "for begin+dur with frame remainders floor(b+d) and floor(b)+floor(d) are both accepted",
    "SAMI documents carry at most one P per language per SYNC",
]


PREV_DOCS = {
    "srt": "1\n00:00:05,000 --> 00:00:06,000\nearlier document\n",
    "webvtt": "WEBVTT\n\n00:05.000 --> 00:06.000\nearlier document\n",
    "microdvd": "{0}{0}30\n{30}{60}earlier document\n",
    "dfxp": ('<tt xmlns="http://www.w3.org/ns/ttml" xml:lang="es"><body><div xml:lang="es">'
             '<p begin="5s" end="6s">earlier document</p></div></body></tt>'),
    "sami": ('<SAMI><HEAD><STYLE TYPE="text/css"><!-- .ESCC {lang: es-ES;} --></STYLE></HEAD><BODY>'
             '<SYNC Start=5000><P Class=ESCC>earlier document</SYNC></BODY></SAMI>'),
}


def _reader(cls, fmt, case, rec, **kw):
    """A fresh reader, or (case["reuse"]) one that has already read another document."""
    r = cls(**kw)
    if case.get("reuse"):
        try:
            r.read(PREV_DOCS[fmt])
        except Exception:  # noqa
            pass
        rec.label("reused-reader")
    return r


def _pairs_sorted(draw, stamp_strategy, n):
    sps = draw(st.lists(stamp_strategy, min_size=2 * n, max_size=2 * n))
    sps.sort(key=T.value)
    return [(sps[2 * i], sps[2 * i + 1]) for i in range(n)]


def _nontrivial_stamp(sp):
    if sp["k"] == "off":
        return True
    return bool(sp.get("h")) or sp.get("ff") is not None or (sp.get("frac") is None) or \
        len(sp["frac"]) != 3


# ------------------------------------------------------------------ SRT

def srt_strategy(tier):
    @st.composite
    def build(draw):
        n = draw(st.integers(1, 8))
        pairs = _pairs_sorted(draw, T.clock_ms(999, frac_optional=True), n)
        cues = [{"a": a, "b": b, "nl": draw(st.integers(1, 2))} for a, b in pairs]
        return {"fmt": "srt", "reuse": draw(st.integers(0, 3)) == 0, "cues": cues, "lang": draw(st.sampled_from([None, "en-US", "fr"])),
                "eol": draw(st.sampled_from(["\n", "\n", "\r\n", "\r"])),
                "trail": draw(st.integers(0, 3)),
                "between": draw(st.lists(st.sampled_from([1, 1, 1, 2, 3]), min_size=1, max_size=4))}
    return build()


def check_srt(case, rec):
    cues = [(T.text(c["a"], ","), T.text(c["b"], ","), [f"cue {i} line {k}" for k in range(c["nl"])])
            for i, c in enumerate(case["cues"])]
    doc = S.srt_doc(cues, case["eol"], case["trail"], between=case.get("between"))
    with must("SRTReader.read"):
        r = _reader(SRTReader, "srt", case, rec)
        cs = r.read(doc, lang=case["lang"]) if case["lang"] else r.read(doc)
    lang = case["lang"] or "en-US"
    require(cs.get_languages() == [lang], lambda: f"languages {cs.get_languages()}, expected [{lang}]")
    _compare(cs.get_captions(lang), [(T.acceptable(c["a"]), T.acceptable(c["b"])) for c in case["cues"]],
             "srt", doc)
    rec.nontrivial(any(_nontrivial_stamp(c[k]) for c in case["cues"] for k in "ab"))
    rec.label("srt")


def _compare(caps, expected, fmt, doc):
    require(len(caps) == len(expected),
            lambda: f"{fmt}: {len(caps)} captions read, document has {len(expected)} non-empty cues: {doc[:400]!r}")
    for i, (c, (ea, eb)) in enumerate(zip(caps, expected)):
        require(isinstance(c.start, int) and not isinstance(c.start, bool) and isinstance(c.end, int),
                lambda: f"{fmt}: cue {i} times are not integer microseconds: {c.start!r}, {c.end!r}")
        require(c.start in ea, lambda: f"{fmt}: cue {i} start read as {c.start}, document denotes {sorted(ea)}: {doc[:400]!r}")
        require(c.end in eb, lambda: f"{fmt}: cue {i} end read as {c.end}, document denotes {sorted(eb)}: {doc[:400]!r}")


# ------------------------------------------------------------------ WebVTT

def webvtt_strategy(tier):
    @st.composite
    def build(draw):
        n = draw(st.integers(1, 8))
        pairs = _pairs_sorted(draw, T.clock_ms(999, hour_optional=True), n)
        # starts must be non-decreasing for ignore_timing_errors=False: sort by start
        pairs.sort(key=lambda p: T.value(p[0]))
        cues = []
        for a, b in pairs:
            cues.append({"a": a, "b": b, "id": draw(st.sampled_from([None, None, "7", "intro", "c-1"])),
                         "settings": draw(st.sampled_from([None, None, "align:left", "line:10% position:20% size:50%",
                                                            "align:center line:0"])),
                         "empty": draw(st.integers(0, 7)) == 0, "nl": draw(st.integers(1, 2)),
                         # cue text that begins like a block of another kind (block keywords
                         # only count at the start of a block, not inside a cue)
                         "first": draw(st.sampled_from([None] * 8 + ["NOTE", "NOTE this is text", "NOTE\ttab", "STYLE",
                                                                     "REGION", "WEBVTT", "NOTEBOOK", "::cue { }"]))})
        min_ms = int(min(T.value(c["a"]) for c in cues) // 1000)
        max_ms = int(max(T.value(c["b"]) for c in cues) // 1000)
        shift = draw(st.one_of(st.just(0), st.just(0), st.integers(-min_ms, 10 ** 7),
                               st.sampled_from([1, -1, 999, 1000, -1000, 3600000]).filter(lambda x: x >= -min_ms),
                               # a shift that moves some (or all) cues before zero: no cue may get
                               # lost; the shifted instant (or 0) is accepted for such cues
                               st.integers(-max_ms - 1, -min_ms), st.sampled_from([-1, -1000, -3600000])))
        notes = {}
        if draw(st.booleans()):
            notes[draw(st.integers(0, n - 1))] = "a comment"
        return {"fmt": "webvtt", "reuse": draw(st.integers(0, 3)) == 0, "cues": cues, "shift": shift,
                "ignore": draw(st.booleans()), "lang": draw(st.sampled_from([None, "en-US", "de"])),
                "notes": [[k, v] for k, v in notes.items()],
                "header": draw(st.sampled_from(["WEBVTT", "WEBVTT", "WEBVTT - title"])),
                "eol": draw(st.sampled_from(["\n", "\n", "\r\n", "\r"])),
                "tail": draw(st.sampled_from([0, 0, 1, 2, -1]))}
    return build()


def check_webvtt(case, rec):
    cues = []
    for i, c in enumerate(case["cues"]):
        cues.append({"id": c["id"], "start": T.text(c["a"]), "end": T.text(c["b"]),
                     "settings": c["settings"],
                     "lines": [] if c["empty"] else [f"cue {i} line {k}" for k in range(c["nl"])]})
        if c.get("first") and not c["empty"]:
            cues[-1]["lines"][0] = c["first"]
            rec.label("webvtt-text-begins-like-a-block")
    if rec.is_open("webvtt-empty-cue-swallows-next") and _empty_then_block(case):
        rec.excluded_known("webvtt-empty-cue-swallows-next")
        return
    eol = case.get("eol", "\n")
    doc = S.webvtt_doc(cues, case["header"], {k: v for k, v in case["notes"]}, eol=eol)
    # the document ends right after the last payload line, or with 1-3 line terminators
    tail = case.get("tail", 0)
    if tail < 0:
        if not case["cues"][-1]["empty"]:
            doc = doc[:-len(eol)]
    else:
        doc += eol * tail
    if all(c["empty"] for c in case["cues"]):
        return
    kw = {}
    if case["shift"]:
        kw["time_shift_milliseconds"] = case["shift"]
    below_zero = min(min(T.acceptable(c["a"])) for c in case["cues"]) + case["shift"] * 1000 < 0
    if not case["ignore"] and not below_zero:
        # (a strict reader may reject instants before zero; they are read leniently)
        kw["ignore_timing_errors"] = False
    with must("WebVTTReader.read"):
        r = _reader(WebVTTReader, "webvtt", case, rec, **kw)
        cs = r.read(doc, lang=case["lang"]) if case["lang"] else r.read(doc)
    lang = case["lang"] or "en-US"
    require(cs.get_languages() == [lang], lambda: f"languages {cs.get_languages()}")
    sh = case["shift"] * 1000
    def shifted(vals):
        out = {v + sh for v in vals}
        return out | {0} if any(v < 0 for v in out) else out
    exp = [(shifted(T.acceptable(c["a"])), shifted(T.acceptable(c["b"])))
           for c in case["cues"] if not c["empty"]]
    if any(v < 0 for ea, _ in exp for v in ea):
        rec.label("webvtt-shift-below-zero")
    if not exp:
        return
    _compare(cs.get_captions(lang), exp, "webvtt", doc)
    rec.nontrivial(case["shift"] != 0 or any(c["empty"] for c in case["cues"])
                   or any(_nontrivial_stamp(c[k]) for c in case["cues"] for k in "ab"))
    rec.label("webvtt")
    if case["shift"]:
        rec.label("webvtt-shift")


def _empty_then_block(case):
    """an empty cue directly followed by an identifier line or a NOTE block"""
    notes = {k for k, _ in case["notes"]}
    cs = case["cues"]
    for i, c in enumerate(cs):
        if c["empty"] and i + 1 < len(cs) and (cs[i + 1]["id"] or (i + 1) in notes):
            return True
    return False


# ------------------------------------------------------------------ DFXP

def dfxp_strategy(tier):
    @st.composite
    def build(draw):
        nd = draw(st.sampled_from([1, 1, 2]))
        divs = []
        for di in range(nd):
            n = draw(st.integers(1, 5))
            ps = []
            for _ in range(n):
                a = draw(T.ttml_time(999))
                b = draw(T.ttml_time(999))
                use_dur = draw(st.integers(0, 3)) == 0
                if not use_dur and T.value(b) < T.value(a):
                    a, b = b, a
                ps.append({"a": a, "b": b, "dur": use_dur,
                           "empty": draw(st.sampled_from([None, None, None, None, None, "", " ", "\n    "])),
                           "end_first": draw(st.booleans()),
                           # begin, end and a dur that reaches at least as far as end: the
                           # paragraph ends at end (the nearer of the two)
                           "both": (not use_dur) and draw(st.integers(0, 5)) == 0,
                           # timing attributes are optional in TTML: an empty <p> may have none
                           "untimed": draw(st.sampled_from([None, None, "none", "id", "begin-only"]))})
            divs.append({"lang": ["en", "fr"][di], "ps": ps})
        return {"fmt": "dfxp", "reuse": draw(st.integers(0, 3)) == 0, "divs": divs, "indent": draw(st.booleans())}
    return build()


def check_dfxp(case, rec):
    divs = []
    exp = {}
    nontriv = False
    for d in case["divs"]:
        ps = []
        e = []
        for i, p in enumerate(d["ps"]):
            attrs = [("begin", T.text(p["a"])), ("dur" if p["dur"] else "end", T.text(p["b"]))]
            if p.get("both") and not p["dur"]:
                attrs.append(("dur", T.text(p["b"])))      # begin + dur >= end
            if p["end_first"]:
                attrs.reverse()
            inner = p["empty"] if p["empty"] is not None else f"cue {i}"
            if p["empty"] is not None and p.get("untimed"):
                attrs = {"none": [], "id": [("xml:id", f"gap{i}")], "begin-only": attrs[:1] if attrs[0][0] == "begin" else attrs[1:]}[p["untimed"]]
            ps.append({"attrs": attrs, "inner": inner})
            if p["empty"] is None:
                ea = T.acceptable(p["a"])
                if p["dur"]:
                    va, vb = T.value(p["a"]), T.value(p["b"])
                    tot = va + vb
                    eb = {x + y for x in ea for y in T.acceptable(p["b"])}
                    eb.add(tot.numerator // tot.denominator)
                else:
                    eb = T.acceptable(p["b"])
                e.append((ea, eb))
            if p.get("both") and p["empty"] is None:
                rec.label("dfxp-begin-end-and-dur")
            nontriv = nontriv or p["dur"] or p["empty"] is not None or \
                _nontrivial_stamp(p["a"]) or _nontrivial_stamp(p["b"])
        divs.append({"lang": d["lang"], "ps": ps})
        exp[d["lang"]] = e
    doc = S.dfxp_doc(divs, tt_lang="en", indent=case["indent"])
    if not any(exp.values()):
        return
    with must("DFXPReader.read"):
        cs = _reader(DFXPReader, "dfxp", case, rec).read(doc)
    require(cs.get_languages() == [d["lang"] for d in case["divs"]],
            lambda: f"dfxp languages {cs.get_languages()}")
    for lang, e in exp.items():
        _compare(cs.get_captions(lang), e, "dfxp", doc)
    rec.nontrivial(nontriv)
    rec.label("dfxp")
    for d in case["divs"]:
        for p in d["ps"]:
            for k in "ab":
                sp = p[k]
                if sp["k"] == "off":
                    rec.label("dfxp-offset-" + sp["metric"])
                elif sp.get("ff") is not None:
                    rec.label("dfxp-frames")
                elif sp.get("frac") and len(sp["frac"]) > 3:
                    rec.label("dfxp-long-fraction")


# ------------------------------------------------------------------ SAMI

LANGS = [("ENCC", "en-US"), ("FRCC", "fr-FR"), ("DECC", "de-DE")]


def sami_strategy(tier):
    @st.composite
    def build(draw):
        nl = draw(st.integers(1, 3))
        ns = draw(st.integers(1, 8))
        times = sorted(set(draw(st.lists(
            st.one_of(st.integers(0, 3599999999), st.integers(0, 100000),
                      st.sampled_from([0, 1, 999, 1000, 60000, 3600000, 86400000, 359999999])),
            min_size=ns, max_size=ns))))
        if draw(st.integers(0, 2)) == 0:
            # gaps around the four seconds a last cue is given by default
            t0 = draw(st.sampled_from([0, 1000, 59000, 3599000]))
            times = [t0]
            for _ in range(ns - 1):
                times.append(times[-1] + draw(st.sampled_from([4000, 4000, 4000, 3999, 4001, 1000, 8000, 2000])))
        syncs = []
        for t in times:
            ps = []
            for li in range(nl):
                mode = draw(st.sampled_from(["text", "text", "blank", "none"]))
                if mode != "none":
                    ps.append({"li": li, "blank": mode == "blank"})
            if not ps:
                ps.append({"li": 0, "blank": False})
            syncs.append({"ms": t, "ps": ps})
        return {"fmt": "sami", "reuse": draw(st.integers(0, 3)) == 0, "nl": nl, "syncs": syncs, "upper": draw(st.booleans()),
                "quote": draw(st.sampled_from(['"', '"', "'", ""])),
                "close_p": draw(st.booleans()), "close_sync": draw(st.booleans()),
                "blank_form": draw(st.sampled_from(["&nbsp;", "&nbsp;", " ", ""]))}
    return build()


def check_sami(case, rec):
    nl = case["nl"]
    syncs = []
    events = {li: [] for li in range(nl)}
    for si, sy in enumerate(case["syncs"]):
        ps = []
        for p in sy["ps"]:
            cls = LANGS[p["li"]][0]
            inner = case["blank_form"] if p["blank"] else f"cue {si} {cls}"
            ps.append({"cls": cls, "inner": inner})
            events[p["li"]].append((sy["ms"], p["blank"]))
        syncs.append((str(sy["ms"]), ps))
    classes = [(LANGS[li][0], LANGS[li][1], [("name", "x")]) for li in range(nl)]
    doc = S.sami_doc(syncs, classes, upper=case["upper"], quote=case["quote"],
                     close_p=case["close_p"], close_sync=case["close_sync"])
    exp = {}
    for li in range(nl):
        ev = events[li]
        e = []
        for i, (ms, blank) in enumerate(ev):
            if blank:
                continue
            end = None
            for ms2, _ in ev[i + 1:]:
                if ms2 != ms:
                    end = ms2 * 1000
                    break
            if end is None:
                end = (ms + 4000) * 1000
            e.append(({ms * 1000}, {end}))
        if e:
            exp[LANGS[li][1]] = e
    if not exp:
        return
    with must("SAMIReader.read"):
        cs = _reader(SAMIReader, "sami", case, rec).read(doc)
    got_langs = sorted(l for l in cs.get_languages() if cs.get_captions(l))
    require(got_langs == sorted(exp), lambda: f"sami: languages with captions {got_langs}, expected {sorted(exp)}")
    for lang, e in exp.items():
        _compare(cs.get_captions(lang), e, "sami", doc)
    rec.nontrivial(len(case["syncs"]) >= 2)
    rec.label(f"sami-{nl}lang")


# ------------------------------------------------------------------ MicroDVD

FPS_LIST = ["23.976", "24", "25", "29.97", "30", "50", "59.94", "23.98", "14.985", "119.88"]


def _exact_step(fps_text):
    """Frames that are multiples of this step fall on a whole number of microseconds (the
    places where an inexact rate, e.g. the binary float of the decimal, shows)."""
    import math
    f = Fraction(fps_text)
    return f.numerator // math.gcd(f.numerator, 10 ** 6 * f.denominator)


def microdvd_strategy(tier):
    @st.composite
    def build(draw):
        fps = draw(st.one_of(st.none(), st.none(), st.sampled_from(FPS_LIST),
                             st.builds(lambda a, b: f"{a}.{b}" if b else str(a), st.integers(1, 120),
                                       st.sampled_from(["", "5", "25", "976", "001", "0", "000"])),
                             st.builds(lambda a, b: f"{a}.{b}", st.integers(1, 120),
                                       st.integers(1, 999).map(str)),
                             st.builds(lambda a, b: f"{a}.{b:03d}", st.integers(1, 120),
                                       st.integers(1, 999)),
                             # rates written out to many decimals (24000/1001 = 23.976023976...)
                             st.sampled_from(["23.976023976", "29.97002997", "59.9400599401", "23.9760239",
                                              "14.9850149850", "24.0000001", "25.00000004"])))
        n = draw(st.integers(1, 8))
        maxf = int(999 * 3600 * 24)
        step = _exact_step(fps or "25")
        exact = st.builds(lambda k, d: max(0, k * step + d), st.integers(0, max(1, maxf // step)),
                          st.sampled_from([-1, 0, 0, 0, 1]))
        exact_small = st.builds(lambda k: k * step, st.integers(0, max(1, min(maxf, 10 ** 6) // step)))
        fr = sorted(draw(st.lists(st.one_of(st.integers(0, maxf), st.integers(0, 100000), exact, exact_small,
                                            st.sampled_from([0, 1, 24, 25, 201, 1500, 90000])),
                                  min_size=2 * n, max_size=2 * n)))
        cues = [{"a": fr[2 * i], "b": fr[2 * i + 1], "empty": draw(st.integers(0, 7)) == 0}
                for i in range(n)]
        if draw(st.integers(0, 3)) == 0:
            # the first cue(s) on the very first frames - {1}{1}, {1}{2}, {2}{2} ...
            cues[0]["a"], cues[0]["b"] = draw(st.sampled_from([[1, 1], [1, 1], [1, 2], [2, 2], [0, 1]]))
        elif fps and len(fps.split(".")[-1]) > 6:
            # far enough in for a relative error of 1e-8 to reach a microsecond
            cues[-1]["a"] = max(cues[-1]["a"], 86400)
            cues[-1]["b"] = max(cues[-1]["b"], cues[-1]["a"])
            for c in cues:
                c["a"], c["b"] = min(c["a"], cues[-1]["a"]), min(c["b"], cues[-1]["b"])
            fr0 = cues[0]["b"]
            for c in cues[1:]:
                c["a"], c["b"] = max(c["a"], fr0), max(c["b"], fr0)
        # texts that look like numbers (a frame rate, a counter) are ordinary cue texts
        for c in cues:
            c["text"] = draw(st.sampled_from([None, None, None, "3", "25", "23.976", "1984", "0", "1e3", "-1", "{1}"]))
        return {"fmt": "microdvd", "reuse": draw(st.integers(0, 3)) == 0, "fps": fps, "cues": cues,
                "lang": draw(st.sampled_from([None, "en-US"])),
                "eol": draw(st.sampled_from(["\n", "\n", "\r\n", "\r"]))}
    return build()


def _mdvd_expected(frame, fps_text):
    q = Fraction(frame) * 10 ** 6 / Fraction(fps_text)
    return {q.numerator // q.denominator}


def check_microdvd(case, rec):
    fps = case["fps"]
    lines = []
    exp = []
    for i, c in enumerate(case["cues"]):
        if c["a"] == 0 and c["b"] == 0:
            continue     # {0}{0} is the frame-rate declaration, not a cue
        lines.append((c["a"], c["b"], "" if c["empty"] else (c.get("text") or f"cue {i}|second")))
        if not c["empty"]:
            exp.append((_mdvd_expected(c["a"], fps or "25"), _mdvd_expected(c["b"], fps or "25")))
    if not exp:
        return
    doc = S.microdvd_doc(lines, fps, eol=case.get("eol", "\n"))
    with must("MicroDVDReader.read"):
        r = _reader(MicroDVDReader, "microdvd", case, rec)
        cs = r.read(doc, lang=case["lang"]) if case["lang"] else r.read(doc)
    lang = cs.get_languages()[0]
    if case["lang"]:
        require(lang == case["lang"], "lang option ignored")
    _compare(cs.get_captions(lang), exp, "microdvd", doc)
    rec.nontrivial(fps is not None or any(c["empty"] for c in case["cues"]) or
                   any(c["a"] >= 1500 for c in case["cues"]))
    rec.label("microdvd-fps" if fps else "microdvd-default")


# ------------------------------------------------------------------ exhaustive legs

def sweep_chunks(tier):
    chunks = []
    top25 = 2160000 if tier == "quick" else 6000000
    for lo in range(0, top25, 20000):
        chunks.append({"kind": "mdvd", "fps": None, "lo": lo, "hi": lo + 20000})
    for fps in FPS_LIST:
        top = 500000 if tier == "quick" else 2000000
        for lo in range(0, top, 20000):
            chunks.append({"kind": "mdvd", "fps": fps, "lo": lo, "hi": lo + 20000})
    chunks.append({"kind": "ssff"})
    for lo in range(0, 100000, 5000):
        chunks.append({"kind": "offs", "lo": lo, "hi": lo + 5000})
    return chunks


def sweep_expand(chunk):
    if chunk["kind"] == "mdvd":
        for lo in range(chunk["lo"], chunk["hi"], 1000):
            yield {"kind": "mdvd", "fps": chunk["fps"], "lo": lo, "hi": min(lo + 1000, chunk["hi"])}
    elif chunk["kind"] == "ssff":
        yield chunk
    else:
        for lo in range(chunk["lo"], chunk["hi"], 1000):
            yield {"kind": "offs", "lo": lo, "hi": lo + 1000}


def check_sweep(case, rec):
    kind = case["kind"]
    if kind == "mdvd":
        fps = case["fps"]
        frames = [f for f in range(case["lo"], case["hi"]) if f > 0]
        lines = [(f, f + 1, "x") for f in frames]
        doc = S.microdvd_doc(lines, fps)
        with must("MicroDVDReader.read"):
            cs = MicroDVDReader().read(doc)
        caps = cs.get_captions(cs.get_languages()[0])
        require(len(caps) == len(frames), "microdvd sweep: caption count")
        for f, c in zip(frames, caps):
            ea = _mdvd_expected(f, fps or "25")
            eb = _mdvd_expected(f + 1, fps or "25")
            require(c.start in ea and c.end in eb,
                    lambda: f"microdvd: frames {{{f}}}{{{f + 1}}} at {fps or 25} fps read as "
                            f"({c.start}, {c.end}), exact is ({sorted(ea)[0]}, {sorted(eb)[0]})")
        rec.nontrivial(True)
        rec.label("sweep-mdvd")
        return
    if kind == "ssff":
        stamps = [{"k": "clock", "h": 0, "hd": 2, "m": 1, "s": s, "frac": None, "ff": ff}
                  for s in range(60) for ff in range(30)]
    else:
        stamps = [{"k": "off", "count": "%d.%03d" % (k // 1000, k % 1000), "metric": "s"}
                  for k in range(case["lo"], case["hi"])]
        stamps += [{"k": "off", "count": "%d.%03d" % (k // 1000, k % 1000), "metric": "ms"}
                   for k in range(case["lo"], min(case["hi"], case["lo"] + 200))]
        stamps += [{"k": "off", "count": str(k), "metric": "f"}
                   for k in range(case["lo"], min(case["hi"], case["lo"] + 200))]
    ps = [{"attrs": [("begin", T.text(sp)), ("end", "999:00:00")], "inner": "x"} for sp in stamps]
    doc = S.dfxp_doc([{"lang": "en", "ps": ps}], tt_lang="en")
    with must("DFXPReader.read"):
        cs = DFXPReader().read(doc)
    caps = cs.get_captions("en")
    require(len(caps) == len(stamps), "dfxp sweep: caption count")
    for sp, c in zip(stamps, caps):
        require(c.start in T.acceptable(sp),
                lambda: f"dfxp: begin={T.text(sp)!r} read as {c.start}, denotes {sorted(T.acceptable(sp))}")
    rec.nontrivial(True)
    rec.label("sweep-" + kind)


def subchecks(tier):
    return [
        Sub("srt", check_srt, strategy=srt_strategy, examples=(8000, 300000), min_per_shard=500),
        Sub("webvtt", check_webvtt, strategy=webvtt_strategy, examples=(8000, 300000), min_per_shard=500),
        Sub("dfxp", check_dfxp, strategy=dfxp_strategy, examples=(6000, 200000), min_per_shard=300),
        Sub("sami", check_sami, strategy=sami_strategy, examples=(4000, 150000), min_per_shard=200),
        Sub("microdvd", check_microdvd, strategy=microdvd_strategy, examples=(8000, 300000), min_per_shard=500),
        Sub("sweep", check_sweep, chunks=sweep_chunks, expand=sweep_expand, exhaustive=True),
    ]
