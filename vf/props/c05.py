"""C05 - SCC pop-on decoding reproduces the CEA-608 screen: text, rows, italics, position."""
import itertools

from hypothesis import strategies as st

from ..ref import cea608 as R
from ..ref import sccprog as SP
from ..runner import Sub, Violation, must, require

from pycaption import SCCReader

PROPERTY = "C05"
RULE = ("pop-on programs built from an abstract model: per caption [ENM] RCL, 1-4 rows loaded "
        "top to bottom, each row = one PAC (any of 15 rows x 8 indents, italic / colour / "
        "underline variants) + optional tab offset + 1-10 items (pairs of basic characters, "
        "single character + null, special characters, stand-in + extended character, mid-row "
        "codes, backspace), never past column 32; [EDM] EOC on the same or a later line; 1-4 "
        "captions; doubling plan none / all control codes / random per control code (PAC+TO "
        "doubled as a unit). Compared with an independent grid decoder whose tables are "
        "computed from the bit layout. Exhaustive legs: all 480 PAC words x {no TO, TO1-3} x "
        "{single, doubled}; each of the 95+16+64 character codes in three contexts; all "
        "sequences of <=4 (thorough <=6) actions over a 9-action alphabet, single and doubled. "
        "Non-trivial: >= 2 rows, or a non-basic character, or italics, or doubled codes, or >= "
        "2 captions. "
        'The SCCReader object is fresh or has a past (an ok document ending on a generated '
        'row, a rejected flash cue, a malformed timecode, the same document). '
        "File layout variants (as in C06): a line spread over frame-contiguous lines at any word "
        "(also between the two copies of a doubled code), 1-3 blanks between code words, blanks "
        "for the tab after the timecode, blanks / a tab after the last word. "
        "Blocks of one screen (non-adjacent rows) must carry identical (start, end) with end > "
        "start, whether the screen is erased by EDM, replaced by the next EOC, or never erased. ")
ASSUMPTIONS = [
    "rows are loaded in ascending order with one PAC each; tab offsets directly follow a PAC",
    "whitespace: a transmitted space between two visible characters must survive, no "
    "whitespace may appear between adjacently transmitted characters; the cell a mid-row code "
    "occupies must read as white space, except before . , ! ? (the pinned tree drops it there "
    "for single codes, see the 2.2.8-2.2.13 changelog: either is accepted) and on rows where a "
    "backspace or an extended character rewrote the neighbourhood; at column gaps either is accepted",
    "0x7F is not judged (pycaption maps it to nothing)",
]


def expected_captions(prog, lines=None):
    shown = SP.reference(prog, lines)
    out = []
    for k, scr in enumerate(shown):
        for g in scr["groups"]:
            out.append({"start": scr["start"], "end": scr["end"], "row": g["row"], "col": g["col"],
                        "lines": g["lines"], "screen": k})
    return out


def _py_lines(cap):
    """[[(char, italic, ws_before)]] per line of a pycaption caption."""
    lines = [[]]
    stack = 0
    pending_ws = False
    for n in cap.nodes:
        if n.type_ == 2:
            if isinstance(n.content, dict) and n.content.get("italics"):
                stack += 1 if n.start else -1
        elif n.type_ == 3:
            lines.append([])
            pending_ws = False
        elif n.type_ == 1:
            for ch in n.content:
                if ch.isspace():
                    pending_ws = True
                else:
                    lines[-1].append((ch, stack > 0, pending_ws))
                    pending_ws = False
    return lines


def _check_balanced(cap, what):
    depth = 0
    for n in cap.nodes:
        if n.type_ == 2:
            depth += 1 if n.start else -1
            require(depth >= 0, lambda: f"{what}: italics end without start: {cap.nodes}")
    require(depth == 0, lambda: f"{what}: italics left open: {cap.nodes}")


def compare(prog, rec, doc=None, lines=None):
    doc = doc or SP.to_scc(prog, lines)
    exp = expected_captions(prog, lines)
    if not exp:
        return None
    reader = SP.used_reader(prog.get("reuse"), doc)
    if prog.get("reuse"):
        rec.label("reused-reader:" + prog["reuse"][0])
    with must("SCCReader.read"):
        cs = reader.read(doc)
    caps = cs.get_captions(cs.get_languages()[0])
    require(len(caps) == len(exp),
            lambda: f"{len(caps)} captions read, the decoder shows {len(exp)} "
                    f"({[(e['row'], len(e['lines'])) for e in exp]}): {doc}")
    for i, (c, e) in enumerate(zip(caps, exp)):
        what = f"caption {i} (screen row {e['row']})"
        if i and exp[i - 1]["screen"] == e["screen"]:
            # blocks of one screen are displayed and erased together
            p = caps[i - 1]
            require((p.start, p.end) == (c.start, c.end),
                    lambda: f"{what}: shown together with caption {i - 1} but times differ: "
                            f"({p.start}, {p.end}) vs ({c.start}, {c.end}): {doc}")
        require(c.end > c.start, lambda: f"{what}: ends ({c.end}) before it starts ({c.start}): {doc}")
        _check_balanced(c, what)
        pl = [l for l in _py_lines(c)]
        pl_nonempty = [l for l in pl if l]
        require(len(pl_nonempty) == len(e["lines"]),
                lambda: f"{what}: {len(pl_nonempty)} lines read ({c.get_text()!r}), decoder shows {len(e['lines'])}: {doc}")
        for li, (pline, eline) in enumerate(zip(pl_nonempty, e["lines"])):
            echars = []
            sep = "none"
            # the blank cell of a mid-row code is demanded only on rows where the displayed
            # neighbour is the transmitted one (no backspace / extended character rewrote it)
            strict_mid = False
            try:
                prow = [r for r in prog["captions"][e["screen"]]["rows"] if r["row"] == e["row"] + li]
                strict_mid = len(prow) == 1 and not any(it[0] in ("bs", "ex") for it in prow[0]["items"])
            except (IndexError, KeyError, TypeError):
                strict_mid = False
            for ch, it, kind in eline:
                if kind == "char" and not ch.isspace():
                    if sep == "mid" and ch in ".,!?":
                        sep = "free"     # pinned: no blank for a mid-row code before punctuation
                    echars.append((ch, it, sep if echars else "free"))
                    sep = "none"
                elif kind == "space" or (kind == "char" and ch.isspace()):
                    sep = "space"
                elif kind == "mid":
                    if sep not in ("space", "free"):
                        # the cell a mid-row code occupies is displayed as a blank
                        sep = "mid" if strict_mid else "free"
                else:
                    if sep != "space":
                        sep = "free"
            got_text = "".join(x[0] for x in pline)
            exp_text = "".join(x[0] for x in echars)
            require(len(pline) == len(echars) and all(R.same_glyph(a[0], b[0]) for a, b in zip(pline, echars)),
                    lambda: f"{what} line {li}: read {got_text!r}, decoder shows {exp_text!r}: {doc}")
            for k, ((ch, git, gws), (_, eit, esep)) in enumerate(zip(pline, echars)):
                require(git == eit,
                        lambda: f"{what} line {li} char #{k} {ch!r}: italic={git}, sent with italics {'on' if eit else 'off'}; "
                                f"text {c.get_text()!r}: {doc}")
                if k and esep == "none":
                    require(not gws, lambda: f"{what} line {li}: whitespace inserted before {ch!r} in {c.get_text()!r}: {doc}")
                if k and esep == "mid":
                    require(gws, lambda: f"{what} line {li}: the blank cell of a mid-row code is missing before {ch!r} in {c.get_text()!r}: {doc}")
                if k and esep == "space":
                    require(gws, lambda: f"{what} line {li}: transmitted space lost before {ch!r} in {c.get_text()!r}: {doc}")
        L = c.layout_info
        require(L is not None and L.origin is not None, lambda: f"{what}: no position")
        ex, ey = 10 + 80 * e["col"] / 32.0, 5 + 90 * (e["row"] - 1) / 15.0
        require(abs(L.origin.x.value - ex) < 1e-9 and abs(L.origin.y.value - ey) < 1e-9
                and L.origin.x.unit.value == "%" and L.origin.y.unit.value == "%",
                lambda: f"{what}: positioned at ({L.origin.x}, {L.origin.y}), row {e['row']} column {e['col']} "
                        f"maps to ({ex:.4f}%, {ey:.4f}%): {doc}")
    return exp


def _nontrivial(prog, exp):
    return (len(exp) >= 2 or any(len(e["lines"]) >= 2 for e in exp) or prog["double"] != "none"
            or any(it[0] in ("sp", "ex", "mid") or r["pit"]
                   for c in prog["captions"] for r in c["rows"] for it in r["items"]))


def leak_shape(prog):
    """Input shape of the open finding: a caption whose first row is the previous caption's
    last row or the row below it (the position tracker of SCCReader survives the EOC and takes
    the new PAC for a line break / tab offset / no-op relative to the previous caption)."""
    caps = prog["captions"]
    for a, b in zip(caps, caps[1:]):
        if b["rows"][0]["row"] - a["rows"][-1]["row"] in (0, 1):
            return True
    return False


def _skip_known(prog, rec):
    if rec.is_open("scc-position-tracker-leaks-across-captions") and leak_shape(prog):
        rec.excluded_known("scc-position-tracker-leaks-across-captions")
        return True
    return False


def check_program(case, rec):
    if _skip_known(case, rec):
        return
    exp = compare(case, rec)
    if exp is None:
        return
    rec.nontrivial(_nontrivial(case, exp))
    rec.label("double:" + case["double"])
    rec.label(f"captions:{len(case['captions'])}")


def _with_reuse(strategy):
    return st.tuples(strategy, SP.reuse_strategy()).map(lambda t: dict(t[0], reuse=t[1]))


def single_caption_strategy(tier):
    return _with_reuse(SP.program_strategy(max_captions=1))


def multi_caption_strategy(tier):
    return _with_reuse(SP.program_strategy(max_captions=4))


# ------------------------------------------------------------------ exhaustive legs

def _one_caption(rows, double="none", drop=True):
    return {"drop": drop, "double": double,
            "captions": [{"gap": 0, "enm": True, "rows": rows, "edm": "none", "eoc_line": False,
                          "hold": 60, "clear": True, "dbl": []}]}


def pac_chunks(tier):
    return [{"row": r} for r in range(1, 16)]


def pac_expand(chunk):
    row = chunk["row"]
    for field in range(16):
        for ul in (False, True):
            for to in (0, 1, 2, 3):
                for dbl in ("none", "all"):
                    r = {"row": row, "indent": (field - 8) * 4 if field >= 8 else 0,
                         "pit": field == 7, "ul": ul, "color": field if field < 7 else None,
                         "to": to, "items": [["c", "Hi"]]}
                    if r["indent"] + to + 2 > 32:
                        r["items"] = [["c1", "H"]]
                    yield {"kind": "pac", "prog": _one_caption([r], dbl)}


def char_chunks(tier):
    return [{"set": "basic"}, {"set": "special"}, {"set": "ext12"}, {"set": "ext13"}]


def char_expand(chunk):
    ctx = [lambda it: [it], lambda it: [["c", "ab"], it], lambda it: [it, ["c", "yz"]],
           lambda it: [["c", "a "], it, ["c", " z"]]]
    if chunk["set"] == "basic":
        items = [["c1", ch] for ch in sorted(R.BASIC_CODE) if ch != " "]
    elif chunk["set"] == "special":
        items = [["sp", i] for i in range(16)]
    else:
        b = 0x12 if chunk["set"] == "ext12" else 0x13
        items = [["ex", b, i, s] for i in range(32) for s in ("E", "a", "'", "o")]
    for it in items:
        for k, c in enumerate(ctx):
            for dbl in ("none", "all"):
                its = c(it)
                if it[0] == "sp" and it[1] == 9 and k == 0:
                    continue      # a lone transparent space shows nothing
                r = {"row": 14, "indent": 4, "pit": False, "ul": False, "color": None, "to": 0,
                     "items": its}
                yield {"kind": "char", "prog": _one_caption([r], dbl)}


ACTIONS = "NFTCSXIPB"   # next-row PAC, far-row PAC, TO, chars, special, extended, italic, plain, BS


def seq_chunks(tier):
    maxlen = 4 if tier == "quick" else 6
    chunks = []
    for n in range(1, maxlen + 1):
        if n <= 3:
            chunks.append({"n": n, "prefix": ""})
        else:
            for p in itertools.product(ACTIONS, repeat=2):
                chunks.append({"n": n, "prefix": "".join(p)})
    return chunks


def seq_expand(chunk):
    n, prefix = chunk["n"], chunk["prefix"]
    for tail in itertools.product(ACTIONS, repeat=n - len(prefix)):
        seq = prefix + "".join(tail)
        for dbl in ("none", "all"):
            prog = _seq_program(seq, dbl)
            if prog is not None:
                yield {"kind": "seq", "seq": seq, "prog": prog}


def _seq_program(seq, dbl):
    """Turn an action string into a well-formed one-caption program (or None if it is not one)."""
    rows = [{"row": 3, "indent": 4, "pit": False, "ul": False, "color": None, "to": 0,
             "items": [["c", "ab"]]}]
    k = 0
    for a in seq:
        cur = rows[-1]
        if a == "N":
            if cur["row"] >= 15:
                return None
            rows.append({"row": cur["row"] + 1, "indent": 8, "pit": False, "ul": False, "color": None,
                         "to": 0, "items": []})
        elif a == "F":
            if cur["row"] + 3 > 15:
                return None
            rows.append({"row": cur["row"] + 3, "indent": 0, "pit": False, "ul": False, "color": None,
                         "to": 0, "items": []})
        elif a == "T":
            if cur["items"] or cur["to"]:
                return None       # tab offsets directly follow a PAC
            cur["to"] = 2
        elif a == "C":
            k += 1
            cur["items"].append(["c", "cd" if k % 2 else "e "])
        elif a == "S":
            k += 1
            cur["items"].append(["sp", 7 if k % 2 else 0])     # never the same code twice in a row
        elif a == "X":
            cur["items"].append(["ex", 0x12, 1, "E"])
        elif a == "I":
            cur["items"].append(["mid", True, False, 0])
        elif a == "P":
            cur["items"].append(["mid", False, False, 0])
        elif a == "B":
            if not cur["items"] or cur["items"][-1][0] not in ("c", "c1", "sp", "ex"):
                return None
            cur["items"].append(["bs"])
    for r in rows:
        if not SP._row_visible(r["items"]):     # every row keeps a visible character
            r["items"].append(["c", "zz"])
    return _one_caption(rows, dbl)


def check_sweep(case, rec):
    prog = case["prog"]
    exp = compare(prog, rec)
    if exp is None:
        return
    rec.nontrivial(True)
    rec.label("sweep:" + case["kind"])


def subchecks(tier):
    return [
        Sub("single", check_program, strategy=single_caption_strategy, examples=(5000, 400000), min_per_shard=200),
        Sub("multi", check_program, strategy=multi_caption_strategy, examples=(2500, 300000), min_per_shard=100),
        Sub("pac-sweep", check_sweep, chunks=pac_chunks, expand=pac_expand, exhaustive=True),
        Sub("char-sweep", check_sweep, chunks=char_chunks, expand=char_expand, exhaustive=True),
        Sub("seq-sweep", check_sweep, chunks=seq_chunks, expand=seq_expand, exhaustive=True),
    ]
