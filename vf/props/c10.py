"""C10 - reading is a deterministic, isolated function of document and options (histories)."""
import json

from hypothesis import strategies as st
from hypothesis.stateful import RuleBasedStateMachine, precondition, rule

from .. import corpus, model, ops, zygote
from ..runner import Sub, Violation, guarded, require

from pycaption import CaptionNode

PROPERTY = "C10"
RULE = ("histories (Hypothesis RuleBasedStateMachine, <= 20 / 40 steps) over documents of the "
        "six input formats - the 162 documents shipped with the repository (examples/ and test "
        "fixtures) and generated DFXP / SAMI / WebVTT / SRT / MicroDVD documents. Rules: read a "
        "document with a fresh or a pooled (previously used) reader object and generated "
        "options; write some live caption set with some writer; edit a live caption set "
        "(add_style, set a key in a caption's style, append a node, change a node's text, "
        "change times, adjust_caption_timing, assign to origin / alignment of a Layout object of the set in place). After every read the canonical dump of the "
        "result (or the exception type) must equal the one obtained in pristine forked children "
        "under PYTHONHASHSEED 0 and 1 (thorough 0-3); after every step the dumps of all live "
        "caption sets other than the one being edited must be unchanged. Non-trivial: the "
        "history has a read after an edit, or a read on a reused reader. "
        "Document families that resemble each other are part of the pool: DFXP with one region "
        "/ style markup and varying definitions, DFXP whose region references (31 different "
        "ids) sit on body / div / p / span or on none of them (inheritance from ancestors or "
        "descendants), SAMI with varying P rules, WebVTT cues with starts from a small pool in "
        "any order (strict readers reject part of them), small SCC documents that are well-formed "
        "or rejected part-way (bad time code on a later line, 40-character row, one-frame cue), "
        "documents cut off at any character (also inside a tag), corpus documents with one digit "
        "changed. A second read rule picks a reader object that exists already and lets it read "
        "any document of its format. "
        ' SCC family: pop-on, roll-up and CR-only segments; a rule lets one SCCReader read two SCC documents in a row with any read() option.')
ASSUMPTIONS = [
    "an exception type counts as the outcome of a read",
    "documents no reader accepts are part of the domain (they must be rejected the same way "
    "every time)",
]

FMT_OF = {"DFXPReader": "dfxp", "SAMIReader": "sami", "SCCReader": "scc", "SRTReader": "srt",
          "WebVTTReader": "webvtt", "MicroDVDReader": "microdvd"}

_DOCS = None


def corpus_docs():
    """[(fmt, text)] for the repository documents some reader's detect() accepts."""
    global _DOCS
    if _DOCS is None:
        import pycaption
        out = []
        for name, text in corpus.documents():
            try:
                cls = pycaption.detect_format(text)
            except Exception:  # noqa
                cls = None
            if cls is not None:
                out.append((FMT_OF[cls.__name__], text, name))
        _DOCS = out
    return _DOCS


def doc_strategy():
    from . import c04
    gen_doc = st.one_of(c04.dfxp_strategy("quick"), c04.sami_strategy("quick"),
                        c04.webvtt_strategy("quick"), c04.plain_strategy("quick"))

    def build(case):
        d, reader = c04.build_doc(case)
        return {"op": "add_doc", "fmt": FMT_OF[reader.__name__], "doc": d}
    n = len(corpus_docs())

    # families of documents that resemble each other: same region / class markup, different
    # definitions behind the references (aimed at caches keyed on part of a document)
    @st.composite
    def dfxp_family(draw):
        org = draw(st.sampled_from(["10% 10%", "10% 70%", "25% 5%"]))
        ext = draw(st.sampled_from(["80% 20%", "50% 10%"]))
        al = draw(st.sampled_from(["left", "center", "right"]))
        inline = draw(st.booleans())
        region = '<region xml:id="r1" style="pos"/>' if not inline else \
            f'<region xml:id="r1" tts:origin="{org}" tts:extent="{ext}" tts:textAlign="{al}"/>'
        # style references: 1-4 ids in any order, an id may be repeated
        ids = st.lists(st.sampled_from(["s1", "s2", "s3", "base"]), min_size=1, max_size=4).map(" ".join)
        sp, ss, s3 = draw(ids), draw(ids), draw(st.sampled_from(["", ' style="base"', ' style="s1 base s1"']))
        doc = ('<?xml version="1.0" encoding="utf-8"?>\n<tt xml:lang="en" xmlns="http://www.w3.org/ns/ttml" '
               'xmlns:tts="http://www.w3.org/ns/ttml#styling"><head><styling>'
               f'<style xml:id="pos" tts:origin="{org}" tts:extent="{ext}" tts:textAlign="{al}"/>'
               f'<style xml:id="base" tts:fontFamily="serif"/>'
               f'<style xml:id="s1" tts:color="red"/><style xml:id="s2" tts:fontStyle="italic"/>'
               f'<style xml:id="s3" tts:fontWeight="bold"{s3}/>'
               f'</styling><layout>{region}</layout></head><body><div xml:lang="en">'
               f'<p begin="00:00:01.000" end="00:00:02.000" region="r1" style="{sp}">one</p>'
               f'<p begin="00:00:03.000" end="00:00:04.000" region="r1"><span style="{ss}">two</span></p>'
               '</div></body></tt>')
        return {"op": "add_doc", "fmt": "dfxp", "doc": doc}

    REGION_IDS = [f"r{k}" for k in range(24)] + ["bottom", "top", "pop1", "Region_0", "speaker", "a", "b"]

    @st.composite
    def dfxp_regions(draw):
        # the region reference sits on any of div / p / span, or on none of them; elements
        # without a reference of their own inherit from ancestors or (if unambiguous) descendants
        ids = draw(st.lists(st.sampled_from(REGION_IDS), min_size=1, max_size=2, unique=True))
        regs = ""
        for i in ids:
            org = draw(st.sampled_from(["10% 10%", "10% 70%", "25% 5%"]))
            ext = draw(st.sampled_from(["80% 20%", "50% 10%"]))
            al = draw(st.sampled_from(["left", "center", "right"]))
            regs += f'<region xml:id="{i}" tts:origin="{org}" tts:extent="{ext}" tts:textAlign="{al}"/>'

        def ref(one_in):
            return f' region="{draw(st.sampled_from(ids))}"' if draw(st.integers(1, one_in)) == 1 else ""
        ps = ""
        for k in range(draw(st.integers(1, 3))):
            inner = "t%d" % k
            for _ in range(draw(st.integers(0, 3))):
                inner += draw(st.sampled_from(["<br/>", " more", "<span>sp</span>"]))
                if draw(st.integers(0, 3)) == 0:
                    inner += f"<span{ref(1)}>rs</span>"
            ps += f'<p begin="00:00:{2 * k:02d}.000" end="00:00:{2 * k + 1:02d}.000"{ref(2)}>{inner}</p>'
        doc = ('<?xml version="1.0" encoding="utf-8"?>\n<tt xml:lang="en" xmlns="http://www.w3.org/ns/ttml" '
               'xmlns:tts="http://www.w3.org/ns/ttml#styling"><head><styling/>'
               f'<layout>{regs}</layout></head><body{ref(8)}><div xml:lang="en"{ref(4)}>{ps}</div></body></tt>')
        return {"op": "add_doc", "fmt": "dfxp", "doc": doc}

    @st.composite
    def webvtt_family(draw):
        # cues with starts from a small pool, not necessarily in order, some ending before they
        # start: strict readers (ignore_timing_errors=False) reject part of these
        cues = []
        for k in range(draw(st.integers(1, 4))):
            a = draw(st.sampled_from([0, 1, 2, 5, 9, 9, 30]))
            b = a + draw(st.sampled_from([1, 1, 2, 0, -1]))
            cues.append(f"00:00:{a:02d}.000 --> 00:00:{max(b, 0):02d}.500\ncue {k}\n")
        return {"op": "add_doc", "fmt": "webvtt", "doc": "WEBVTT\n\n" + "\n".join(cues)}

    @st.composite
    def scc_family(draw):
        # small pop-on documents: well-formed, or rejected part-way (a time code that lost a
        # digit on a later line, a row of 40 characters, a cue shown for one frame)
        from ..ref import cea608 as R608
        kind = draw(st.sampled_from(["ok", "ok", "badtime", "long", "flash", "rollup", "cr-only", "cr-only",
                                     "single-paint", "single-paint", "single-pop"]))
        if kind in ("single-paint", "single-pop"):
            # every command sent once (no doubling); the document may end with a mode command
            # that is also the first word of another document of this family
            word = draw(st.sampled_from(["Left over", "Good morning", "abc"]))
            sec = draw(st.integers(1, 9))
            pac_ = R608.pac(draw(st.integers(1, 15)), 0)
            chars = " ".join(R608.char_words(word))
            first = f"9429 {pac_} {chars}" if kind == "single-paint" else f"9420 {pac_} {chars} 942f"
            tail = draw(st.sampled_from(["", " 9429", " 9429", " 9420"]))
            return {"op": "add_doc", "fmt": "scc",
                    "doc": "\n".join(["Scenarist_SCC V1.0", "", f"00:00:{sec:02d}:00\t{first}", "",
                                       f"00:00:{sec + 3:02d}:00\t942c{tail}", ""])}
        if kind in ("rollup", "cr-only"):
            # roll-up rows: with their RUx command, or a segment cut out of such a stream (rows
            # flushed by carriage returns only)
            ru = draw(st.sampled_from(["9425", "9426", "94a7"]))
            rows = draw(st.lists(st.sampled_from(["HELLO", "WORLD", "THIRD ROW", "abc"]), min_size=2, max_size=4))
            out = ["Scenarist_SCC V1.0", ""]
            for k, txt in enumerate(rows):
                w = ([ru, ru] if kind == "rollup" and k == 0 else []) + ["94ad", "94ad", "9470", "9470"] + R608.char_words(txt)
                out += [f"00:00:{draw(st.integers(1, 3)) + 3 * k:02d}:00\t" + " ".join(w), ""]
            out += [f"00:00:{3 * len(rows) + 4:02d}:00\t94ad 94ad", ""]
            return {"op": "add_doc", "fmt": "scc", "doc": "\n".join(out)}
        word = draw(st.sampled_from(["Left over", "Good morning", "Second cue", "abc"]))
        sec = draw(st.integers(1, 9))
        row = draw(st.integers(1, 15))
        text = word if kind != "long" else (word + " ") * 8
        load = "9420 9420 " + R608.pac(row, 0) + " " + R608.pac(row, 0) + " " + " ".join(R608.char_words(text[:40]))
        lines = ["Scenarist_SCC V1.0", "", f"00:00:{sec:02d}:00\t94ae 94ae {load} 942f 942f", ""]
        if kind == "flash":
            lines += [f"00:00:{sec + 1:02d}:00\t942c 942c", ""]
            lines[2] = f"00:00:{sec + 1:02d}:00\t94ae 94ae {load} 942f 942c"
            lines = lines[:4]
        else:
            lines += [f"00:00:{sec + 3:02d}:00\t942c 942c", ""]
        if kind == "badtime":
            lines += [f"00:00:{sec + 5:02d}\t94ae 94ae {load} 942f 942f", ""]
        return {"op": "add_doc", "fmt": "scc", "doc": "\n".join(lines)}

    @st.composite
    def sami_family(draw):
        margin = draw(st.sampled_from(["5%", "10%", "0%"]))
        al = draw(st.sampled_from(["left", "center", "right"]))
        # paragraphs with or without an inline alignment; one shape makes the reader fail in the
        # middle of a caption (empty class attribute: IndexError on the pinned tree too)
        p1 = draw(st.sampled_from(['<P Class=ENCC>one', '<P Class=ENCC style="text-align:right">one',
                                   '<P Class=ENCC style="text-align:left"><span style="text-align:center">one</span>',
                                   '<P Class=ENCC style="text-align:right"><span class="">x</span>']))
        doc = ('<SAMI><HEAD><STYLE TYPE="text/css"><!--\n'
               f'P {{ margin-left: {margin}; margin-right: {margin}; text-align: {al}; }}\n'
               '.ENCC { Name: English; lang: en-US; }\n--></STYLE></HEAD><BODY>'
               f'<SYNC Start=1000>{p1}</SYNC><SYNC Start=2000><P Class=ENCC>&nbsp;</SYNC>'
               '</BODY></SAMI>')
        return {"op": "add_doc", "fmt": "sami", "doc": doc}

    @st.composite
    def mutated_corpus(draw):
        i = draw(st.integers(0, n - 1))
        fmt, text, _ = corpus_docs()[i]
        digits = [k for k, ch in enumerate(text) if ch.isdigit()]
        if not digits:
            return {"op": "add_doc", "corpus": i}
        k = digits[draw(st.integers(0, len(digits) - 1))]
        d = draw(st.sampled_from("0123456789"))
        return {"op": "add_doc", "fmt": fmt, "doc": text[:k] + d + text[k + 1:]}

    @st.composite
    def truncated(draw):
        # a document cut off anywhere (inside a tag, a style block, a cue): readers reject it or
        # read what is there - and must be none the worse for it afterwards
        src = draw(st.one_of(sami_family(), dfxp_family(), webvtt_family(), scc_family(),
                             st.integers(0, n - 1).map(lambda i: {"fmt": corpus_docs()[i][0], "doc": corpus_docs()[i][1]})))
        text = src["doc"]
        if len(text) < 4:
            return {"op": "add_doc", "fmt": src["fmt"], "doc": text}
        k = draw(st.integers(1, len(text) - 1))
        if draw(st.booleans()):
            # cut right after a '<' + some name characters, if there is one nearby
            j = text.rfind("<", 0, k)
            if j >= 0:
                k = min(len(text) - 1, j + draw(st.integers(1, 12)))
        return {"op": "add_doc", "fmt": src["fmt"], "doc": text[:k]}

    return st.one_of(st.integers(0, n - 1).map(lambda i: {"op": "add_doc", "corpus": i}),
                     st.integers(0, n - 1).map(lambda i: {"op": "add_doc", "corpus": i}),
                     gen_doc.map(build), dfxp_family(), dfxp_regions(), sami_family(), webvtt_family(),
                     scc_family(), mutated_corpus(), truncated())


def call_strategy(fmt):
    if fmt in ("srt", "webvtt", "microdvd"):
        return st.sampled_from([{}, {}, {"lang": "fr"}])
    if fmt == "scc":
        return st.sampled_from([{}, {}, {"lang": "fr"}, {"offset": 1}, {"simulate_roll_up": True}])
    return st.just({})


def ctor_strategy(fmt):
    if fmt == "webvtt":
        return st.sampled_from([{}, {}, {"time_shift_milliseconds": 500}, {"ignore_timing_errors": False}])
    if fmt == "dfxp":
        return st.sampled_from([{}, {}, {"read_invalid_positioning": True}])
    return st.just({})


EDITS = ["add_style", "caption_style", "append_node", "node_text", "times", "retime", "set_styles_key",
         "style_node_content", "style_node_content", "layout_in_place", "layout_in_place"]


class State:
    def __init__(self, tier):
        self.tier = tier
        self.docs = []        # (fmt, text)
        self.live = []        # [{"cs": CaptionSet, "dump": canonical dump}]
        self.pool = {}
        self.pristine = {}
        self.nontrivial = False
        self.edited = False


def _resolve_doc(step):
    if "corpus" in step:
        fmt, text, _ = corpus_docs()[step["corpus"]]
        return fmt, text
    return step["fmt"], step["doc"]


def check_isolation(st_, rec, except_idx=None, what=""):
    for k, lv in enumerate(st_.live):
        if k == except_idx:
            continue
        now = model.dump(lv["cs"])
        if now != lv["dump"]:
            from .c09 import _first_diff
            raise Violation(f"{what}: caption set #{k} (returned by an earlier read of a {lv['fmt']} "
                            f"document) changed: {_first_diff(lv['dump'], now)}")


def exec_step(st_, step, rec):
    op = step["op"]
    if op == "add_doc":
        st_.docs.append(_resolve_doc(step))
        return
    if op == "read":
        i = step["doc_i"]
        if i >= len(st_.docs):
            return
        fmt, text = st_.docs[i]
        ctor, call = step["ctor"], step["call"]
        rkey = (fmt, json.dumps(ctor, sort_keys=True))
        if step["pooled"] and rkey in st_.pool:
            reader = st_.pool[rkey]
            st_.nontrivial = True
            rec.label("reused-reader")
        else:
            reader = ops.make_reader(fmt, ctor)
            st_.pool[rkey] = reader
        try:
            cs = ops.do_read(reader, text, call)
            got = {"ok": model.dump(cs)}
        except Exception as e:  # noqa
            cs = None
            got = {"err": type(e).__name__}
        pkey = (i, rkey[1], json.dumps(call, sort_keys=True))
        if pkey not in st_.pristine:
            seeds = (0, 1) if st_.tier == "quick" else (0, 1, 2, 3)
            res = []
            for hs in seeds:
                r = zygote.get(hs).request({"op": "read", "fmt": fmt, "doc": text, "ctor": ctor, "call": call})
                res.append((hs, {"ok": r["ok"]} if "ok" in r else {"err": r["err"][0]}))
            st_.pristine[pkey] = res
        for hs, pr in st_.pristine[pkey]:
            if pr != got:
                from .c09 import _first_diff
                if "ok" in pr and "ok" in got:
                    d = _first_diff(pr["ok"], got["ok"])
                else:
                    d = f"{pr.get('err') or 'a caption set'} there, {got.get('err') or 'a caption set'} here"
                raise Violation(f"read of {fmt} document #{i} ({'reused' if step['pooled'] else 'fresh'} reader, "
                                f"ctor={ctor}, call={call}) differs from a pristine process "
                                f"(PYTHONHASHSEED={hs}): {d}")
        if st_.edited:
            st_.nontrivial = True
            rec.label("read-after-edit")
        check_isolation(st_, rec, None, "after a read")
        if cs is not None:
            st_.live.append({"cs": cs, "dump": got["ok"], "fmt": fmt})
            if len(st_.live) > 8:
                st_.live.pop(0)
        rec.label("read:" + fmt)
        return
    if not st_.live:
        return
    j = step["set_j"] % len(st_.live)
    lv = st_.live[j]
    cs = lv["cs"]
    if op == "write":
        try:
            ops.do_write(ops.make_writer(step["writer"], {}), cs, {})
        except Exception:  # noqa  (writers are judged by C09)
            pass
        check_isolation(st_, rec, None, f"after {step['writer']}.write")
        rec.label("write")
        return
    if op == "edit":
        kind = step["kind"]
        langs = cs.get_languages()
        caps = cs.get_captions(langs[0]) if langs else []
        try:
            if kind == "add_style":
                cs.add_style("verif" + str(step.get("n", 0)), {"color": "red"})
            elif kind == "set_styles_key":
                cs.get_style("p")["verif-key"] = "1"
            elif kind == "caption_style" and caps:
                caps[step.get("n", 0) % len(caps)].style["verif"] = True
            elif kind == "append_node" and caps:
                caps[step.get("n", 0) % len(caps)].nodes.append(CaptionNode.create_text("EDIT"))
            elif kind == "node_text" and caps:
                c = caps[step.get("n", 0) % len(caps)]
                for nd in c.nodes:
                    if nd.type_ == CaptionNode.TEXT:
                        nd.content = nd.content + "!"
                        break
            elif kind == "style_node_content" and caps:
                done = False
                for c in caps:
                    for nd in c.nodes:
                        if nd.type_ == CaptionNode.STYLE and isinstance(nd.content, dict):
                            nd.content["verif-bold"] = True
                            done = True
                            break
                    if done:
                        break
            elif kind == "layout_in_place" and caps:
                # a geometry object of this set edited in place (not rebound)
                from pycaption.geometry import (Alignment, HorizontalAlignmentEnum, Point, Size, UnitEnum,
                                                VerticalAlignmentEnum)
                c = caps[step.get("n", 0) % len(caps)]
                lays = [c.layout_info] + [nd.layout_info for nd in c.nodes]
                for lay in lays:
                    if lay is not None:
                        if step.get("n", 0) % 2:
                            lay.origin = Point(Size(7, UnitEnum.PERCENT), Size(7, UnitEnum.PERCENT))
                        else:
                            lay.alignment = Alignment(HorizontalAlignmentEnum.RIGHT, VerticalAlignmentEnum.TOP)
                        break
            elif kind == "times" and caps:
                c = caps[step.get("n", 0) % len(caps)]
                c.start, c.end = c.start + 1000, c.end + 1000
            elif kind == "retime":
                cs.adjust_caption_timing(offset=1000000, rate_skew=1.0)
        except Exception:  # noqa
            pass
        lv["dump"] = model.dump(cs)
        st_.edited = True
        check_isolation(st_, rec, j, f"after edit '{kind}' of caption set #{j}")
        rec.label("edit:" + kind)


def check_history(case, rec):
    st_ = State(case.get("tier", "quick"))
    for step in case["steps"]:
        exec_step(st_, step, rec)
    rec.nontrivial(st_.nontrivial)


def machine(tier, hook):
    rec = hook.recorder

    class ReaderHistories(RuleBasedStateMachine):
        def __init__(self):
            super().__init__()
            hook.start()
            self.st = State(tier)
            self.steps = []
            self.failed = False

        def _do(self, step):
            self.steps.append(step)
            try:
                guarded(lambda c_, r_: exec_step(self.st, c_, r_), step, rec)
            except Violation as v:
                self.failed = True
                hook.failed({"tier": tier, "steps": self.steps}, str(v))
                raise
            except Exception:  # noqa
                import traceback
                hook.harness_error(traceback.format_exc())

        @rule(d=doc_strategy())
        def add_doc(self, d):
            self._do(d)

        @precondition(lambda self: len(self.st.docs) > 0)
        @rule(data=st.data())
        def read(self, data):
            i = data.draw(st.integers(0, len(self.st.docs) - 1))
            fmt = self.st.docs[i][0]
            self._do({"op": "read", "doc_i": i, "ctor": data.draw(ctor_strategy(fmt)),
                      "call": data.draw(call_strategy(fmt)), "pooled": data.draw(st.booleans())})

        @precondition(lambda self: sum(1 for d in self.st.docs if d[0] == "scc") >= 2)
        @rule(data=st.data())
        def scc_reader_reads_two_documents(self, data):
            """One SCCReader object reads two SCC documents in a row, the second one with any of
            the read() options (a roll-up segment read with simulate_roll_up after a stream that
            set the roll-up depth, say)."""
            idx = [i for i, d in enumerate(self.st.docs) if d[0] == "scc"]
            i = idx[data.draw(st.integers(0, len(idx) - 1))]
            j = idx[data.draw(st.integers(0, len(idx) - 1))]
            self._do({"op": "read", "doc_i": i, "ctor": {}, "call": {}, "pooled": True})
            self._do({"op": "read", "doc_i": j, "ctor": {},
                      "call": data.draw(st.sampled_from([{"simulate_roll_up": True}, {"simulate_roll_up": True},
                                                         {"offset": 1}, {}])), "pooled": True})

        @precondition(lambda self: len(self.st.pool) > 0)
        @rule(data=st.data())
        def read_pooled(self, data):
            # a reader object that exists already reads again (any document of its format)
            keys = sorted(self.st.pool)
            fmt, ctor = keys[data.draw(st.integers(0, len(keys) - 1))]
            cand = [i for i, d in enumerate(self.st.docs) if d[0] == fmt]
            i = cand[data.draw(st.integers(0, len(cand) - 1))]
            self._do({"op": "read", "doc_i": i, "ctor": json.loads(ctor),
                      "call": data.draw(call_strategy(fmt)), "pooled": True})

        @precondition(lambda self: len(self.st.live) > 0)
        @rule(j=st.integers(0, 7), w=st.sampled_from(["srt", "webvtt", "dfxp", "sami", "microdvd",
                                                      "dfxp-legacy", "dfxp-single"]))
        def write(self, j, w):
            self._do({"op": "write", "set_j": j, "writer": w})

        @precondition(lambda self: len(self.st.live) > 0)
        @rule(j=st.integers(0, 7), kind=st.sampled_from(EDITS), n=st.integers(0, 5))
        def edit(self, j, kind, n):
            self._do({"op": "edit", "set_j": j, "kind": kind, "n": n})

        def teardown(self):
            case = {"tier": tier, "steps": self.steps}
            rec.begin(case)
            rec.nontrivial(self.st.nontrivial)
            rec.end(not self.failed)

    return ReaderHistories


def subchecks(tier):
    return [Sub("histories", check_history, machine=machine, examples=(600, 12000),
                steps=(20, 40), min_per_shard=20)]
