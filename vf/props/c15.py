"""C15 - SCC lines longer than 32 characters are never returned silently."""
import itertools

from hypothesis import strategies as st

from ..ref import cea608 as R
from ..ref import sccprog as SP
from ..runner import Sub, Violation, require

from pycaption import SCCReader
from pycaption.exceptions import (CaptionLineLengthError, CaptionReadNoCaptions,
                                  CaptionReadTimingError)

PROPERTY = "C15"
RULE = ("SCC streams in the three caption modes: pop-on groups of 1-3 rows on non-adjacent "
        "screen rows (which come back as several captions sharing one start time) or adjacent "
        "rows (lines of one caption), roll-up (RU2/3/4 + CR) and paint-on (RDC) streams, 1-3 "
        "groups per stream, each row 0-40 basic characters with lengths biased to 31-34; every "
        "case is also read under every permutation of the rows inside each group. Expected "
        "outcome from the generated row lengths alone. Non-trivial: at least one row longer than "
        "32 together with another row in the same group. "
        'Groups sit on the timeline sequentially, exactly 24 h after the first group, or on '
        "the first group's timecode again; rows may contain a mid-row code and begin / end with 1-2 blanks; the final caption "
        'may be unterminated; the SCCReader object is fresh or has a past. '
        "Lines are written in lexical variants too: 1-3 blanks between code words, blanks for "
        "the tab after the timecode, blanks / a tab after the last word. ")
ASSUMPTIONS = [
    "rows are runs of letters/digits with 0-2 blanks at either edge; a row that exceeds 32 only "
    "by its edge blanks may be rejected or returned, but no returned line may exceed 32",
]

ALPH = "abcdefghijklmnopqrstuvwxyzABCDEFGHIJKLMNOPQRSTUVWXYZ"


def _text(n, tag):
    s = (tag + ALPH * 2)[:n]
    return s


def stream_strategy(tier):
    length = st.one_of(st.integers(0, 40), st.sampled_from([31, 32, 33, 34, 32, 33]))

    @st.composite
    def build(draw):
        mode = draw(st.sampled_from(["pop", "pop", "pop-adjacent", "roll", "paint"]))
        groups = []
        for gi in range(draw(st.integers(1, 3))):
            n = draw(st.integers(1, 3))
            lens = [draw(length) for _ in range(n)]
            if all(x == 0 for x in lens):
                lens[0] = 5
            groups.append(lens)
        # optional mid-row italics code inside a row: [group][row] -> split position or None
        mids = [[draw(st.one_of(st.none(), st.none(), st.integers(1, max(1, n - 1)))) if n >= 2 else None
                 for n in g] for g in groups]
        # blanks at the edges of a row: [group][row] -> [leading, trailing]
        pads = [[draw(st.sampled_from([[0, 0], [0, 0], [0, 0], [1, 0], [2, 0], [0, 1], [0, 2], [1, 1]]))
                 for _ in g] for g in groups]
        return {"mode": mode, "groups": groups, "pads": pads, "spacing": draw(SP.spacing_strategy()), "ru": draw(st.sampled_from(["RU2", "RU3", "RU4"])),
                "drop": draw(st.booleans()), "double": draw(st.booleans()), "mids": mids,
                "terminate": draw(st.integers(0, 2)) != 0, "reuse": draw(SP.reuse_strategy()),
                "tc": [draw(st.sampled_from(["seq", "seq", "seq", "plus24h", "repeat-first"]))
                       for _ in groups]}
    return build()


def _row_words(text, mid, d):
    if mid is None or mid >= len(text):
        return R.char_words(text)
    return R.char_words(text[:mid]) + [R.midrow(italic=True)] * d + R.char_words(text[mid:])


def build(case, perm=None):
    """-> (document, [(row text, has mid-row code)])"""
    mode = case["mode"]
    d = 2 if case["double"] else 1
    lines = ["Scenarist_SCC V1.0", ""]
    t = 30 * 3600
    rows_all = []
    mids = case.get("mids") or [[None] * len(g) for g in case["groups"]]
    term = case.get("terminate", True)

    def ctrl(name):
        return [R.MISC[name]] * d

    tcs = case.get("tc") or ["seq"] * len(case["groups"])
    t_first = t
    t_seq = t
    for gi, lens in enumerate(case["groups"]):
        # where this group sits on the timeline: after the previous one, exactly 24 h after the
        # first group (same clock reading, a day later), or on the first group's timecode again
        if gi and tcs[gi] == "plus24h":
            t = t_first + 24 * 3600 * 30
        elif gi and tcs[gi] == "repeat-first":
            t = t_first
        else:
            t = t_seq
        order = list(range(len(lens)))
        if perm is not None:
            order = list(perm[gi])
        texts = {k: _text(lens[k], f"g{gi}r{k}x") for k in range(len(lens))}
        for k, (lead, trail) in enumerate((case.get("pads") or [[]] * (gi + 1))[gi]):
            if lens[k] >= lead + trail + 1:
                texts[k] = " " * lead + texts[k][:lens[k] - lead - trail] + " " * trail
        if mode in ("pop", "pop-adjacent"):
            w = ctrl("ENM") + ctrl("RCL")
            screen_rows = [2 + 4 * j for j in range(len(lens))] if mode == "pop" else [5 + j for j in range(len(lens))]
            for pos, k in enumerate(order):
                w += [R.pac(screen_rows[pos], 0)] * d
                w += _row_words(texts[k], mids[gi][k], d)
                if texts[k]:
                    rows_all.append((texts[k], mids[gi][k]))
            w += ctrl("EOC")
            lines += [SP.fmt_line(R.timecode(t, case["drop"]), w, case.get("spacing")), ""]
            t += len(w) + 60
            if term or gi < len(case["groups"]) - 1:
                lines += [SP.fmt_line(R.timecode(t, case["drop"]), ctrl("EDM"), case.get("spacing")), ""]
            t += 10
        elif mode == "roll":
            for pos, k in enumerate(order):
                w = ctrl(case["ru"]) + ctrl("CR") + [R.pac(15, 0)] * d + _row_words(texts[k], mids[gi][k], d)
                if texts[k]:
                    rows_all.append((texts[k], mids[gi][k]))
                lines += [SP.fmt_line(R.timecode(t, case["drop"]), w, case.get("spacing")), ""]
                t += len(w) + 30
        else:
            w = ctrl("RDC")
            for pos, k in enumerate(order):
                w += [R.pac(3 + 4 * pos, 0)] * d + _row_words(texts[k], mids[gi][k], d)
                if texts[k]:
                    rows_all.append((texts[k], mids[gi][k]))
            lines += [SP.fmt_line(R.timecode(t, case["drop"]), w, case.get("spacing")), ""]
            t += len(w) + 60
        if not gi or tcs[gi] == "seq":
            t_seq = t
    if mode == "roll" and term:
        lines += [SP.fmt_line(R.timecode(t, case["drop"]), ctrl(case["ru"]) + ctrl("CR"), case.get("spacing")), ""]
    if mode == "paint" and term:
        lines += [SP.fmt_line(R.timecode(t, case["drop"]), ctrl("RDC"), case.get("spacing")), ""]
    return "\n".join(lines), rows_all


def _read_outcome(doc, rows, reuse=None):
    # a mid-row code occupies a cell: a row of n characters with a mid-row code shows n or n+1
    # blanks at the edges of a row: whether they count is not stated; a row that exceeds 32 only
    # with them may be rejected or returned (stripped or not - the returned lines are judged)
    must_fail = [r for r, mid in rows if len(r.strip()) > 32]
    may_fail = [r for r, mid in rows if (mid is not None and len(r) == 32) or len(r) > 32 >= len(r.strip())]
    try:
        cs = SP.used_reader(reuse, doc).read(doc)
    except CaptionLineLengthError as e:
        msg = str(e)
        require(must_fail or may_fail,
                lambda: f"CaptionLineLengthError although no transmitted row exceeds 32 characters "
                        f"(lengths {[len(r) for r, _ in rows]}): {msg[:300]}")
        for r, mid in rows:
            if len(r.strip()) > 32:
                parts = [r] if mid is None or mid >= len(r) else [r[:mid], r[mid:]]
                for part in parts:
                    require(part.strip() in msg, lambda: f"the error message does not name the offending row {r!r} "
                                                 f"(length {len(r)}); message: {msg[:600]!r}; document: {doc}")
        return "error" if must_fail else "either"
    except CaptionReadNoCaptions:
        return "none"
    except CaptionReadTimingError:
        # timecodes that jump backwards can make a display shorter than 0.05 s: that is C06's
        # rule; the stream is then not judged here
        return "either"
    except Exception as e:  # noqa
        raise Violation(f"SCCReader.read raised {type(e).__name__}: {e}: {doc}")
    for c in cs.get_captions(cs.get_languages()[0]):
        for line in "".join(c.get_text_nodes()).split("\n"):
            require(len(line) <= 32,
                    lambda: f"a line of {len(line)} characters was returned silently: {line!r}; "
                            f"transmitted row lengths {[len(r) for r, _ in rows]}; document: {doc}")
    require(not must_fail, lambda: f"rows longer than 32 were transmitted ({[len(r) for r in must_fail]}) "
                                   f"but read() neither raised nor returned them: {doc}")
    return "either" if may_fail else "ok"


def check_stream(case, rec):
    doc, rows = build(case)
    first = _read_outcome(doc, rows, case.get("reuse"))
    if case.get("reuse"):
        rec.label("reused-reader:" + case["reuse"][0])
    n_perm = 0
    perms = [list(itertools.permutations(range(len(g)))) for g in case["groups"]]
    combos = list(itertools.product(*perms))
    if len(combos) > 36:
        combos = combos[:36]
    for combo in combos:
        d2, r2 = build(case, combo)
        out = _read_outcome(d2, r2)
        require(out == first or "either" in (out, first), lambda: f"outcome {out!r} under row order {combo} but {first!r} in the original "
                                      f"order; row lengths {case['groups']}; document: {d2}")
        n_perm += 1
    long_with_company = any(any(x > 32 for x in g) and len(g) >= 2 for g in case["groups"])
    rec.nontrivial(long_with_company)
    rec.label("mode:" + case["mode"])
    rec.label("outcome:" + first)


def subchecks(tier):
    return [Sub("streams", check_stream, strategy=stream_strategy, examples=(8000, 200000), min_per_shard=300)]
