"""C09 - writing never alters its input and is deterministic (histories)."""
import json

from hypothesis import strategies as st
from hypothesis.stateful import RuleBasedStateMachine, precondition, rule

from .. import model, ops, zygote
from ..runner import Sub, Violation, guarded, require

PROPERTY = "C09"
RULE = ("histories (Hypothesis RuleBasedStateMachine, <= 20 / 40 steps) over a bundle of "
        "generated caption sets - metacharacter texts, styles, layouts in % and px at every "
        "level, balanced and unbalanced STYLE nodes, near twins of earlier sets written with the same writer object (a break or blanks at an edge, style keys in another order, 1 for True, language-level layouts with / without padding), spans styled through named styles ('class' / 'classes' references whose few names mean different styles from set to set), captions of 16+ lines, empty languages, 1-2 "
        "languages, plus the caption sets the readers return for the repository's documents - and a pool of writer objects per (class, constructor options). Rules: add a "
        "set; write a set with one of the eight writers on a fresh or a pooled (previously used) "
        "writer object with generated constructor / call options; write an earlier (set, writer, "
        "options) combination again. Around every write the deep structural dump of the set "
        "must be unchanged (also when the writer raises); every outcome (output bytes or "
        "exception type) is compared with the first outcome recorded for the same combination "
        "in this history and with the outcome in pristine forked children under PYTHONHASHSEED "
        "0 and 1 (thorough 0-3). Non-trivial: the history contains a write on a pooled writer "
        "after a different set, or a raising write."
        ' Further rules: a failed write followed by another set with the same writer; a near twin with the same writer; the same length relativized along both axes against the same number in two writes.')
ASSUMPTIONS = [
    "TranscriptWriter is not exercised (needs nltk, which is not installed in this sandbox)",
    "an exception counts as an outcome: the same combination must raise the same exception type",
]

WRITERS = ["srt", "webvtt", "dfxp", "sami", "microdvd", "scc", "dfxp-legacy", "dfxp-single"]


def set_strategy():
    from . import c07, c11

    @st.composite
    def build(draw):
        if draw(st.integers(0, 2)) == 0:
            # spans styled through named styles; the same few names mean different styles in
            # different sets; optionally a late caption that makes relativizing writers fail
            s = draw(c11.classes_strategy("quick"))["set"]
            if draw(st.integers(0, 2)) == 0:
                s["langs"][0]["cues"].append({
                    "start": 9000000, "end": 9500000, "nodes": [{"t": "late"}], "style": {},
                    "layout": {"origin": [[10, "px"], [10, "px"]], "extent": None, "padding": None,
                               "align": None, "webvtt": None}})
            return s
        s = draw(c07.api_strategy("quick"))["set"]
        mode = draw(st.integers(0, 7))
        lang = s["langs"][0]
        if mode == 0:
            # unbalanced: drop the last style end node of some caption
            for c in lang["cues"]:
                idx = [i for i, n in enumerate(c["nodes"]) if n.get("s") is False]
                if idx:
                    del c["nodes"][idx[-1]]
                    break
        elif mode == 1:
            # a caption of 17 lines
            c = lang["cues"][0]
            c["nodes"] = []
            for k in range(17):
                if k:
                    c["nodes"].append({"br": 1})
                c["nodes"].append({"t": f"line {k}"})
        elif mode == 2:
            s["langs"].append({"code": "xx", "layout": None, "cues": []})
        elif mode == 3:
            for c in lang["cues"]:
                c["layout"] = {"origin": [[360, "px"], [180, "px"]], "extent": [[420, "px"], [240, "px"]],
                               "padding": None, "align": ["left", None], "webvtt": None}
        return s
    return build()


_READER_SETS = None


def reader_sets():
    """Canonical dumps (= models) of the caption sets read from the repository's documents."""
    global _READER_SETS
    if _READER_SETS is None:
        from .. import corpus
        out = []
        for name, cls, cs in corpus.read_all():
            d = model.dump(cs)
            if sum(len(l["cues"]) for l in d["langs"]) <= 40:
                out.append(d)
        _READER_SETS = out
    return _READER_SETS


def ctor_strategy(name):
    if name in ("srt", "microdvd", "scc", "dfxp-legacy"):
        return st.just({})
    base = {"relativize": st.booleans(), "fit_to_screen": st.booleans(),
            "video_width": st.sampled_from([None, 640, 1920, 480, 1080]),      # (also square videos)
            "video_height": st.sampled_from([None, 360, 1080, 480, 640])}
    if name in ("dfxp", "dfxp-single"):
        base["write_inline_positioning"] = st.booleans()
    return st.fixed_dictionaries(base)


def call_strategy(name, codes):
    if name == "webvtt":
        # (also a language the set does not have, and a code spelled in another case)
        return st.sampled_from([{}, {}] + [{"lang": c} for c in codes] + [{"lang": "zz"}] +
                               [{"lang": c.lower()} for c in codes[:1]])
    if name.startswith("dfxp"):
        return st.sampled_from([{}, {}] + [{"force": c} for c in codes] + [{"force": "zz"}] +
                               [{"force": c.upper()} for c in codes[:1]])
    return st.just({})


class State:
    def __init__(self, tier):
        self.tier = tier
        self.sets = []          # model JSON
        self.objs = []          # pycaption CaptionSet objects (live for the whole history)
        self.pool = {}          # (writer, ctor-json) -> writer object
        self.first = {}         # combo key -> outcome
        self.last_set_by_writer = {}
        self.nontrivial = False


def _outcome(fn):
    try:
        return {"ok": fn()}
    except Exception as e:  # noqa
        return {"err": type(e).__name__}


def exec_step(st_, step, rec):
    if step["op"] == "new_set":
        st_.sets.append(step["set"])
        st_.objs.append(model.to_pycaption(step["set"]))
        return
    i = step["set_i"]
    if i >= len(st_.sets):
        return
    name, ctor, call = step["writer"], step["ctor"], step["call"]
    cs = st_.objs[i]
    wkey = (name, json.dumps(ctor, sort_keys=True))
    if step["pooled"] and wkey in st_.pool:
        writer = st_.pool[wkey]
        if st_.last_set_by_writer.get(wkey) not in (None, i):
            st_.nontrivial = True
            rec.label("pooled-writer-after-other-set")
    else:
        writer = ops.make_writer(name, ctor)
        st_.pool[wkey] = writer
    st_.last_set_by_writer[wkey] = i
    before = model.dump(cs)
    got = _outcome(lambda: ops.do_write(writer, cs, call))
    after = model.dump(cs)
    require(before == after,
            lambda: f"{name}.write modified its input caption set (outcome {_short(got)}): "
                    f"{_first_diff(before, after)}")
    if "err" in got:
        st_.nontrivial = True
        rec.label("raising-write:" + got["err"])
    # the model the set was built from must still describe it
    ckey = (i, name, wkey[1], json.dumps(call, sort_keys=True))
    if ckey in st_.first:
        require(st_.first[ckey] == got,
                lambda: f"{name}: writing the same set again gave a different outcome "
                        f"({'pooled' if step['pooled'] else 'fresh'} writer): {_diff_out(st_.first[ckey], got)}")
        rec.label("repeat-write")
    else:
        st_.first[ckey] = got
        seeds = (0, 1) if st_.tier == "quick" else (0, 1, 2, 3)
        for hs in seeds:
            r = zygote.get(hs).request({"op": "write", "writer": name, "set": st_.sets[i],
                                        "ctor": ctor, "call": call})
            pr = {"ok": r["ok"]} if "ok" in r else {"err": r["err"][0]}
            require(pr == got,
                    lambda: f"{name}: outcome differs from a pristine process (PYTHONHASHSEED={hs}; "
                            f"{'pooled' if step['pooled'] else 'fresh'} writer here): {_diff_out(pr, got)}")
    rec.label("writer:" + name)


def _short(o):
    return o.get("err") or "ok"


def _first_diff(a, b, path=""):
    if type(a) != type(b):
        return f"{path}: {a!r} -> {b!r}"
    if isinstance(a, dict):
        for k in sorted(set(a) | set(b)):
            if a.get(k) != b.get(k):
                return _first_diff(a.get(k), b.get(k), f"{path}.{k}")
    if isinstance(a, list):
        if len(a) != len(b):
            return f"{path}: length {len(a)} -> {len(b)}"
        for i, (x, y) in enumerate(zip(a, b)):
            if x != y:
                return _first_diff(x, y, f"{path}[{i}]")
    return f"{path}: {a!r} -> {b!r}"


def _diff_out(a, b):
    if "err" in a or "err" in b:
        return f"{a if 'err' in a else 'output'} vs {b if 'err' in b else 'output'}"
    x, y = a["ok"], b["ok"]
    for i, (p, q) in enumerate(zip(x, y)):
        if p != q:
            return f"outputs differ at offset {i}: ...{x[max(0, i - 60):i + 60]!r} vs ...{y[max(0, i - 60):i + 60]!r}"
    return f"outputs differ in length ({len(x)} vs {len(y)}): tail {x[-80:]!r} vs {y[-80:]!r}"


def check_history(case, rec):
    st_ = State(case.get("tier", "quick"))
    for step in case["steps"]:
        exec_step(st_, step, rec)
    rec.nontrivial(st_.nontrivial)


def machine(tier, hook):
    rec = hook.recorder

    class WriterHistories(RuleBasedStateMachine):
        def __init__(self):
            super().__init__()
            hook.start()
            self.st = State(tier)
            self.steps = []
            self.failed = False

        def _do(self, step):
            self.steps.append(step)
            try:
                guarded(lambda c_, r_: exec_step(self.st, c_, r_), step, rec)
            except Violation as v:
                self.failed = True
                hook.failed({"tier": tier, "steps": self.steps}, str(v))
                raise
            except Exception:  # noqa  (a bug of the harness itself, never a verdict)
                import traceback
                hook.harness_error(traceback.format_exc())

        @rule(s=set_strategy())
        def new_set(self, s):
            self._do({"op": "new_set", "set": s})

        @rule(i=st.integers(0, 10 ** 6))
        def new_set_from_reader(self, i):
            """a caption set as some reader returns it for a document of the repository"""
            sets = reader_sets()
            self._do({"op": "new_set", "set": sets[i % len(sets)]})

        @precondition(lambda self: len(self.st.sets) > 0)
        @rule(data=st.data())
        def write(self, data):
            i = data.draw(st.integers(0, len(self.st.sets) - 1))
            name = data.draw(st.sampled_from(WRITERS + ["webvtt", "sami", "dfxp"]))
            codes = [l["code"] for l in self.st.sets[i]["langs"]]
            self._do({"op": "write", "set_i": i, "writer": name,
                      "ctor": data.draw(ctor_strategy(name)),
                      "call": data.draw(call_strategy(name, codes)),
                      "pooled": data.draw(st.booleans())})

        @precondition(lambda self: any(s["op"] == "write" for s in self.steps))
        @rule(data=st.data())
        def write_again(self, data):
            prev = data.draw(st.sampled_from([s for s in self.steps if s["op"] == "write"]))
            step = dict(prev, pooled=data.draw(st.booleans()))
            self._do(step)

        @precondition(lambda self: len(self.st.sets) > 1 and any(s["op"] == "write" for s in self.steps))
        @rule(data=st.data())
        def write_other_set_with_same_writer(self, data):
            prev = data.draw(st.sampled_from([s for s in self.steps if s["op"] == "write"]))
            j = data.draw(st.integers(0, len(self.st.sets) - 1))
            codes = [l["code"] for l in self.st.sets[j]["langs"]]
            self._do(dict(prev, set_i=j, pooled=True,
                          call=data.draw(call_strategy(prev["writer"], codes))))

        @rule(data=st.data(), name=st.sampled_from(["webvtt", "webvtt", "dfxp", "sami", "dfxp-single"]))
        def failed_write_then_reuse(self, data, name):
            """One writer object: a write that fails part-way (absolute layout on a late caption,
            relativization on, no video size), then a write of another set in which the same
            style names mean other styles."""
            from . import c11
            a = data.draw(c11.classes_strategy("quick"))["set"]
            b = data.draw(c11.classes_strategy("quick"))["set"]
            a["langs"][0]["cues"].append({
                "start": 9000000, "end": 9500000, "nodes": [{"t": "late"}], "style": {},
                "layout": {"origin": [[10, "px"], [10, "px"]], "extent": None, "padding": None,
                           "align": None, "webvtt": None}})
            ctor = {"relativize": True, "fit_to_screen": data.draw(st.booleans()), "video_width": None,
                    "video_height": None}
            if name in ("dfxp", "dfxp-single"):
                ctor["write_inline_positioning"] = False
            self._do({"op": "new_set", "set": a})
            ia = len(self.st.sets) - 1
            self._do({"op": "new_set", "set": b})
            ib = len(self.st.sets) - 1
            self._do({"op": "write", "set_i": ia, "writer": name, "ctor": ctor, "call": {}, "pooled": True})
            self._do({"op": "write", "set_i": ib, "writer": name, "ctor": ctor, "call": {}, "pooled": True})

        @precondition(lambda self: len(self.st.sets) > 0)
        @rule(data=st.data(), name=st.sampled_from(WRITERS))
        def write_near_twin_with_same_writer(self, data, name):
            """One writer object writes a set and then a set that differs from it in one detail a
            lossy key would not see: a break at the edge of a caption, blanks at the edge of a
            text, the order of the keys of a style, 1 for True."""
            import copy
            i = data.draw(st.integers(0, len(self.st.sets) - 1))
            twin = copy.deepcopy(self.st.sets[i])
            cues = [c for l in twin["langs"] for c in l["cues"]]
            if not cues:
                return
            c = cues[data.draw(st.integers(0, len(cues) - 1))]
            kind = data.draw(st.sampled_from(["tail-break", "head-break", "edge-blanks", "style-order", "one-for-true",
                                              "lang-padding", "lang-padding"]))
            if kind == "lang-padding":
                # the same set with and without padding in its language-level layouts (what one
                # write derives from a layout must not stay behind for the next one)
                pad = data.draw(st.sampled_from([[[5, "%"]] * 4, [[2, "%"], None, [10, "%"], None], [[1, "c"], [1, "c"], [2, "c"], [2, "c"]]]))
                both = []
                for pd in (pad, None):
                    t_ = copy.deepcopy(self.st.sets[i])
                    for l in t_["langs"]:
                        l["layout"] = {"origin": [[10, "%"], [10, "%"]], "extent": [[80, "%"], [80, "%"]],
                                       "padding": pd, "align": None, "webvtt": None}
                    both.append(t_)
                if data.draw(st.booleans()):
                    both.reverse()
                ctor = data.draw(ctor_strategy(name))
                for t_ in both:
                    self._do({"op": "new_set", "set": t_})
                    self._do({"op": "write", "set_i": len(self.st.sets) - 1, "writer": name, "ctor": ctor, "call": {},
                              "pooled": True})
                return
            if kind == "tail-break":
                c["nodes"] = c["nodes"] + [{"br": 1}]
            elif kind == "head-break":
                c["nodes"] = [{"br": 1}] + c["nodes"]
            elif kind == "edge-blanks":
                for n in c["nodes"]:
                    if "t" in n:
                        n["t"] = "  " + n["t"] + " "
                        break
            elif kind == "style-order":
                c["style"] = dict(reversed(list((c.get("style") or {"font-size": "10px", "color": "red"}).items())))
                base = self.st.sets[i]
            else:
                for n in c["nodes"]:
                    if "s" in n:
                        n["c"] = {k: (1 if v is True else v) for k, v in n["c"].items()}
            ctor = data.draw(ctor_strategy(name))
            self._do({"op": "new_set", "set": twin})
            j = len(self.st.sets) - 1
            self._do({"op": "write", "set_i": i, "writer": name, "ctor": ctor, "call": {}, "pooled": True})
            self._do({"op": "write", "set_i": j, "writer": name, "ctor": ctor, "call": {}, "pooled": True})

        @rule(data=st.data(), name=st.sampled_from(["dfxp", "webvtt", "sami", "dfxp-single"]))
        def same_length_on_both_axes(self, data, name):
            """Two writes in one process in which the same absolute length is relativized along
            different axes against the same number (a width that equals the other write's height)."""
            unit = data.draw(st.sampled_from(["c", "c", "px", "em"]))
            v = data.draw(st.sampled_from([1, 2, 4, 5]))
            n = data.draw(st.sampled_from([480, 640, 1080]))

            def mk(origin):
                lay = {"origin": origin, "extent": None, "padding": None, "align": None, "webvtt": None}
                return {"langs": [{"code": "en", "layout": lay if name == "sami" else None,
                                   "cues": [{"start": 0, "end": 900000, "nodes": [{"t": "x"}], "style": {},
                                             "layout": lay}]}], "styles": {}, "layout": lay if name == "sami" else None}
            a = mk([[v, unit], [0, "%"]])
            b = mk([[0, "%"], [v, unit]])
            ca = {"relativize": True, "fit_to_screen": False, "video_width": n, "video_height": 360}
            cb = {"relativize": True, "fit_to_screen": False, "video_width": 1920, "video_height": n}
            if name in ("dfxp", "dfxp-single"):
                ca["write_inline_positioning"] = cb["write_inline_positioning"] = False
            self._do({"op": "new_set", "set": a})
            ia = len(self.st.sets) - 1
            self._do({"op": "new_set", "set": b})
            ib = len(self.st.sets) - 1
            first = data.draw(st.booleans())
            for i_, c_ in ((ia, ca), (ib, cb)) if first else ((ib, cb), (ia, ca)):
                self._do({"op": "write", "set_i": i_, "writer": name, "ctor": c_, "call": {}, "pooled": False})

        def teardown(self):
            case = {"tier": tier, "steps": self.steps}
            rec.begin(case)
            rec.nontrivial(self.st.nontrivial)
            rec.end(not self.failed)

    return WriterHistories


def subchecks(tier):
    return [Sub("histories", check_history, machine=machine, examples=(800, 12000),
                steps=(20, 40), min_per_shard=20)]
