"""C11 - italic, bold and underline spans survive conversion and stay balanced."""
from hypothesis import strategies as st

from .. import corpus, model
from ..ref import parsers as P
from ..runner import Sub, Violation, must, require

from pycaption import DFXPReader, DFXPWriter, SAMIReader, SAMIWriter, WebVTTWriter

PROPERTY = "C11"
RULE = ("captions of 1-3 lines whose text is cut into pieces, with 0-4 flat (non-nesting) style "
        "spans - italics, bold, underline or a combination in one span, each flag true or (rarely) spelled out as false - placed at generated "
        "piece boundaries: at line start/end, across a line break, adjacent, empty; 1-3 "
        "captions per set. (roundtrip) DFXP->DFXP, SAMI->SAMI, DFXP->SAMI, SAMI->DFXP with "
        "pycaption's writers and readers, per non-space character flags (italic [, bold, "
        "underline]) before vs after, output markup balance by strict XML / an html.parser tag "
        "stack; (webvtt) output tokenised independently: i/b/u properly nested and flags equal; "
        "(readers) STYLE nodes of every caption any reader returns for the repository corpus and "
        "for generated documents match like brackets. Non-trivial: at least one non-empty span "
        "that does not cover the whole caption. "
        "(dfxp-merged) runs of concurrent captions written by the single-position / legacy DFXP writers: "
        "italic characters of the merged paragraph. (webvtt-layouts) captions positioned in two places with spans touching the change of "
        "position: tags balanced inside every cue and flags equal. "
        "(scc-rollup) roll-up and paint-on streams of the C16 generator with mid-row italics, read with "
        "and without simulate_roll_up: balanced style nodes. "
        "(webvtt-classes) spans and captions that are italic / bold / underlined through named "
        "styles of the set ('class' / 'classes' references, ids with capitals, inheritance, "
        "true and false values, the same class used repeatedly, inline keys on top), written by "
        "a fresh WebVTTWriter or one that wrote - or failed to write - a set in which the same "
        "names mean other styles; reference resolution: classes in list order, own keys last.")
ASSUMPTIONS = [
    "spans are flat and balanced on the input side; nodes carry no layouts except in the webvtt-layouts leg, where each span lies within nodes of one layout",
    "DFXP carries italics only (bold / underline are judged for SAMI and WebVTT targets)",
]

KEYS = ["italics", "bold", "underline"]


def set_strategy(tier):
    @st.composite
    def caption(draw, ci):
        nlines = draw(st.integers(1, 3))
        pieces = []          # list of ("t", text) | ("br",)
        for li in range(nlines):
            if li:
                pieces.append(("br",))
            for k in range(draw(st.integers(1, 3))):
                pieces.append(("t", draw(st.sampled_from(["ab", "c", "de f", "Hello", "x&y", "1<2", "é"])) + ""))
        # choose span boundaries among piece indices
        nspans = draw(st.integers(0, 4))
        cuts = sorted(draw(st.lists(st.integers(0, len(pieces)), min_size=2 * nspans, max_size=2 * nspans)))
        spans = []
        for i in range(nspans):
            a, b = cuts[2 * i], cuts[2 * i + 1]
            keys = draw(st.lists(st.sampled_from(KEYS), min_size=1, max_size=3, unique=True))
            # (a flag may be spelled out as switched off: legal in an API-built set)
            spans.append((a, b, {k: draw(st.sampled_from([True, True, True, False])) for k in sorted(keys)}))
        nodes = []
        for idx in range(len(pieces) + 1):
            for a, b, c in spans:
                if b == idx and a != b:
                    nodes.append({"s": False, "c": c})
            for a, b, c in spans:
                if a == idx:
                    nodes.append({"s": True, "c": c})
                    if a == b:
                        nodes.append({"s": False, "c": c})
            if idx < len(pieces):
                p = pieces[idx]
                nodes.append({"br": 1} if p[0] == "br" else {"t": p[1]})
        return {"start": (ci + 1) * 2000000, "end": (ci + 1) * 2000000 + 1500000, "nodes": nodes,
                "style": {}, "layout": None}

    @st.composite
    def build(draw):
        n = draw(st.integers(1, 3))
        return {"set": {"langs": [{"code": "en-US", "layout": None,
                                   "cues": [draw(caption(i)) for i in range(n)]}],
                        "styles": {}, "layout": None}}
    return build()


def flags_model(cue):
    """[(char, (i,b,u))] over non-space characters of a model cue."""
    out = []
    stack = []
    for n in cue["nodes"]:
        if "s" in n:
            if n["s"]:
                stack.append(n["c"])
            elif stack:
                stack.pop()
        elif "t" in n:
            f = tuple(any(c.get(k) for c in stack) for k in KEYS)
            out += [(ch, f) for ch in n["t"] if not ch.isspace()]
    return out


def check_balanced_py(caption, what):
    stack = []
    for n in caption.nodes:
        if n.type_ == 2:
            if n.start:
                stack.append(n.content)
            else:
                require(stack, lambda: f"{what}: style end node without a start: {caption.nodes}")
                top = stack.pop()
                require(top == n.content, lambda: f"{what}: style end {n.content} closes {top}: {caption.nodes}")
    require(not stack, lambda: f"{what}: style nodes left open {stack}: {caption.nodes}")


def flags_py(caption):
    out = []
    stack = []
    base = caption.style or {}
    for n in caption.nodes:
        if n.type_ == 2:
            if n.start:
                stack.append(n.content or {})
            elif stack:
                stack.pop()
        elif n.type_ == 1:
            f = tuple(bool(base.get(k)) or any(c.get(k) for c in stack) for k in KEYS)
            out += [(ch, f) for ch in n.content if not ch.isspace()]
    return out


def _hop(fmt, cs, trail):
    if fmt == "dfxp":
        with must(f"DFXPWriter.write ({trail})"):
            out = DFXPWriter().write(cs)
        try:
            P.parse_dfxp(out)
        except P.RefParseError as e:
            raise Violation(f"{trail}: DFXP output markup not well-formed/balanced: {e}; {out[:500]!r}")
        with must(f"DFXPReader.read ({trail})"):
            return DFXPReader().read(out), out
    with must(f"SAMIWriter.write ({trail})"):
        out = SAMIWriter().write(cs)
    doc = P.parse_sami(out)
    require(not doc["errors"], lambda: f"{trail}: SAMI output markup unbalanced: {doc['errors'][:3]}; {out[:600]!r}")
    with must(f"SAMIReader.read ({trail})"):
        return SAMIReader().read(out), out


CHAINS = [(["dfxp"], 1), (["sami"], 3), (["dfxp", "sami"], 1), (["sami", "dfxp"], 1)]


def _nontrivial(m):
    for cue in m["langs"][0]["cues"]:
        fl = flags_model(cue)
        if any(any(f) for _, f in fl) and not all(f == fl[0][1] for _, f in fl):
            return True
    return False


def check_roundtrip(case, rec):
    m = case["set"]
    cues = m["langs"][0]["cues"]
    exp = [flags_model(c) for c in cues]
    for chain, nkeys in CHAINS:
        cs = model.to_pycaption(m)
        trail = ""
        for fmt in chain:
            trail = (trail + ">" + fmt).lstrip(">")
            cs, out = _hop(fmt, cs, trail)
            caps = cs.get_captions(cs.get_languages()[0])
            require(len(caps) == len(cues), lambda: f"{trail}: {len(caps)} captions, expected {len(cues)}")
            for i, (cap, e) in enumerate(zip(caps, exp)):
                check_balanced_py(cap, f"{trail}: caption {i} read back")
        caps = cs.get_captions(cs.get_languages()[0])
        for i, (cap, e) in enumerate(zip(caps, exp)):
            g = flags_py(cap)
            require([c for c, _ in g] == [c for c, _ in e],
                    lambda: f"{trail}: caption {i} characters changed: {''.join(c for c, _ in g)!r} vs {''.join(c for c, _ in e)!r}")
            for k, ((ch, gf), (_, ef)) in enumerate(zip(g, e)):
                require(gf[:nkeys] == ef[:nkeys],
                        lambda: f"{trail}: caption {i} char #{k} {ch!r}: flags {dict(zip(KEYS[:nkeys], gf))}, "
                                f"authored {dict(zip(KEYS[:nkeys], ef))}; last output: {out[-900:]!r}")
    rec.nontrivial(_nontrivial(m))
    rec.label("spans:%d" % sum(1 for c in cues for n in c["nodes"] if n.get("s") is True))


def check_webvtt(case, rec):
    m = case["set"]
    cues = m["langs"][0]["cues"]
    cs = model.to_pycaption(m)
    with must("WebVTTWriter.write"):
        out = WebVTTWriter().write(cs)
    try:
        got = P.parse_webvtt(out)
    except P.RefParseError as e:
        raise Violation(f"webvtt output not well-formed: {e}")
    require(len(got) == len(cues), lambda: f"webvtt: {len(got)} cues for {len(cues)} captions")
    tagmap = {"i": 0, "b": 1, "u": 2}
    for i, (g, cue) in enumerate(zip(got, cues)):
        try:
            chars = P.vtt_styled_chars(g["lines"])
        except P.RefParseError as e:
            raise Violation(f"webvtt: cue {i} tags not properly nested: {e}; payload {g['lines']!r}")
        gl = []
        for ch, open_tags in chars:
            if ch.isspace():
                continue
            f = [False, False, False]
            for t in open_tags:
                if t in tagmap:
                    f[tagmap[t]] = True
            gl.append((ch, tuple(f)))
        e = flags_model(cue)
        require([c for c, _ in gl] == [c for c, _ in e], lambda: f"webvtt: cue {i} characters changed: {g['lines']!r}")
        for k, ((ch, gf), (_, ef)) in enumerate(zip(gl, e)):
            require(gf == ef, lambda: f"webvtt: cue {i} char #{k} {ch!r}: tags give {dict(zip(KEYS, gf))}, "
                                      f"authored {dict(zip(KEYS, ef))}; payload {g['lines']!r}")
    rec.nontrivial(_nontrivial(m))


# ------------------------------------------------------------------ reader leg

def corpus_chunks(tier):
    n = len(corpus.documents())
    return [{"lo": i, "hi": min(n, i + 10)} for i in range(0, n, 10)]


def corpus_expand(chunk):
    for i in range(chunk["lo"], chunk["hi"]):
        yield {"doc": i}


def check_corpus(case, rec):
    import pycaption
    name, text = corpus.documents()[case["doc"]]
    try:
        cls = pycaption.detect_format(text)
        if cls is None:
            return
        cs = cls().read(text)
    except Exception:  # noqa
        rec.label("unreadable")
        return
    n = 0
    for lang in cs.get_languages():
        for i, cap in enumerate(cs.get_captions(lang)):
            check_balanced_py(cap, f"{name} via {cls.__name__}: caption {i}")
            n += sum(1 for x in cap.nodes if x.type_ == 2)
    rec.nontrivial(n > 0)
    rec.label("reader:" + cls.__name__)


def gen_docs_strategy(tier):
    from . import c04
    return st.one_of(c04.dfxp_strategy(tier), c04.sami_strategy(tier))


def check_gen_docs(case, rec):
    from . import c04
    try:
        doc, reader = c04.build_doc(case)
        cs = reader().read(doc)
    except Exception:  # noqa
        rec.label("unreadable")
        return
    n = 0
    for lang in cs.get_languages():
        for i, cap in enumerate(cs.get_captions(lang)):
            check_balanced_py(cap, f"generated {case['fmt']} document: caption {i}")
            n += sum(1 for x in cap.nodes if x.type_ == 2)
    rec.nontrivial(n > 0)


def scc_strategy(tier):
    from ..ref import sccprog as SP

    @st.composite
    def build(draw):
        prog = draw(SP.program_strategy(max_captions=3))
        # italics that stay on across several repositionings: italic PACs on non-adjacent rows
        if draw(st.integers(0, 2)) == 0:
            for cap in prog["captions"]:
                for r in cap["rows"]:
                    if draw(st.booleans()):
                        r["pit"], r["color"], r["indent"] = True, None, 0
        return prog
    return build()


def check_scc(case, rec):
    from ..ref import sccprog as SP
    from pycaption import SCCReader
    doc = SP.to_scc(case)
    try:
        cs = SCCReader().read(doc)
    except Exception:  # noqa  (reading SCC is judged by C05/C06/C15)
        rec.label("unreadable")
        return
    n = 0
    for i, cap in enumerate(cs.get_captions(cs.get_languages()[0])):
        check_balanced_py(cap, f"generated SCC program: caption {i} ({cap.get_text()!r}); document: {doc}")
        n += sum(1 for x in cap.nodes if x.type_ == 2)
    rec.nontrivial(n > 0)
    if n:
        rec.label("has-italics")


# ------------------------------------------------------------------ concurrent captions merged by the extras writers

def merged_strategy(tier):
    """Two or three captions with identical times (the legacy / single-position DFXP writers merge
    them into one paragraph); spans may end where one caption ends and start where the next begins."""
    @st.composite
    def build(draw):
        caps = []
        for ci in range(draw(st.integers(2, 3))):
            nodes = []
            for k in range(draw(st.integers(1, 2))):
                keys = draw(st.lists(st.sampled_from(KEYS), min_size=0, max_size=2, unique=True))
                c = {key: True for key in sorted(keys)}
                if c:
                    nodes.append({"s": True, "c": c})
                nodes.append({"t": f"m{ci}{k}"})
                if c:
                    nodes.append({"s": False, "c": c})
            caps.append({"start": 2000000, "end": 3500000, "nodes": nodes, "style": {}, "layout": None})
        return {"set": {"langs": [{"code": "en-US", "layout": None, "cues": caps}], "styles": {}, "layout": None},
                "writer": draw(st.sampled_from(["single", "legacy"]))}
    return build()


def check_merged(case, rec):
    from pycaption.dfxp.extras import LegacyDFXPWriter, SinglePositioningDFXPWriter
    m = case["set"]
    cues = m["langs"][0]["cues"]
    exp = [x for c in cues for x in flags_model(c)]
    wcls = SinglePositioningDFXPWriter if case["writer"] == "single" else LegacyDFXPWriter
    with must(f"{wcls.__name__}.write"):
        out = wcls().write(model.to_pycaption(m))
    try:
        P.parse_dfxp(out)
    except P.RefParseError as e:
        raise Violation(f"{case['writer']}: output markup not well-formed/balanced: {e}; {out[:500]!r}")
    with must("DFXPReader.read"):
        back = DFXPReader().read(out)
    caps = back.get_captions(back.get_languages()[0])
    require(len(caps) == 1, lambda: f"{case['writer']}: {len(caps)} paragraphs for one run of concurrent captions")
    check_balanced_py(caps[0], "merged paragraph read back")
    g = flags_py(caps[0])
    require([c for c, _ in g] == [c for c, _ in exp], lambda: f"{case['writer']}: characters changed: {out[-600:]!r}")
    for k, ((ch, gf), (_, ef)) in enumerate(zip(g, exp)):
        require(gf[0] == ef[0], lambda: f"{case['writer']}: char #{k} {ch!r} italic={gf[0]}, authored {ef[0]}; nodes "
                                        f"{[c['nodes'] for c in cues]}; output {out[-700:]!r}")
    rec.nontrivial(True)
    rec.label("merged:" + case["writer"])


# ------------------------------------------------------------------ spans next to a change of position

LAYOUT_A = {"origin": [[10, "%"], [10, "%"]], "extent": None, "padding": None, "align": ["left", "top"], "webvtt": None}
LAYOUT_B = {"origin": [[20, "%"], [70, "%"]], "extent": [[60, "%"], [20, "%"]], "padding": None, "align": None, "webvtt": None}


def layouts_strategy(tier):
    """Captions whose text nodes are positioned in two places (WebVTT writes one cue per place);
    each span lies within nodes of one layout and may touch the change of position."""
    @st.composite
    def build(draw):
        cues = []
        for ci in range(draw(st.integers(1, 3))):
            nodes = []
            for li, lay in enumerate(draw(st.sampled_from([[LAYOUT_A, LAYOUT_B], [LAYOUT_B, LAYOUT_A],
                                                            [LAYOUT_A, LAYOUT_B, LAYOUT_A]]))):
                if li and draw(st.booleans()):
                    nodes.append({"br": 1, "layout": lay})
                for k in range(draw(st.integers(1, 2))):
                    keys = draw(st.lists(st.sampled_from(KEYS), min_size=0, max_size=2, unique=True))
                    c = {key: True for key in sorted(keys)}
                    if c:
                        nodes.append({"s": True, "c": c, "layout": lay})
                    nodes.append({"t": f"w{ci}{li}{k}", "layout": lay})
                    if c:
                        nodes.append({"s": False, "c": c, "layout": lay})
            cues.append({"start": (ci + 1) * 2000000, "end": (ci + 1) * 2000000 + 1500000, "nodes": nodes,
                         "style": {}, "layout": None})
        return {"set": {"langs": [{"code": "en-US", "layout": None, "cues": cues}], "styles": {}, "layout": None}}
    return build()


def check_layouts(case, rec):
    m = case["set"]
    cues = m["langs"][0]["cues"]
    cs = model.to_pycaption(m)
    with must("WebVTTWriter.write"):
        out = WebVTTWriter().write(cs)
    try:
        got = P.parse_webvtt(out)
    except P.RefParseError as e:
        raise Violation(f"webvtt output not well-formed: {e}")
    tagmap = {"i": 0, "b": 1, "u": 2}
    by_time = {}
    for g in got:
        try:
            chars = P.vtt_styled_chars(g["lines"])      # balanced and nested within EACH cue
        except P.RefParseError as e:
            raise Violation(f"webvtt: tags not balanced inside one cue: {e}; payload {g['lines']!r}; output {out!r}")
        gl = by_time.setdefault((g["start"], g["end"]), [])
        for ch, open_tags in chars:
            if not ch.isspace():
                f = [False, False, False]
                for t in open_tags:
                    if t in tagmap:
                        f[tagmap[t]] = True
                gl.append((ch, tuple(f)))
    require(len(by_time) == len(cues), lambda: f"webvtt: cues at {len(by_time)} distinct times for {len(cues)} captions")
    for i, cue in enumerate(cues):
        gl = by_time.get((cue["start"] // 1000 * 1000, cue["end"] // 1000 * 1000), [])
        e = flags_model(cue)
        require([c for c, _ in gl] == [c for c, _ in e], lambda: f"webvtt: caption {i} characters changed: {out!r}")
        for k, ((ch, gf), (_, ef)) in enumerate(zip(gl, e)):
            require(gf == ef, lambda: f"webvtt: caption {i} char #{k} {ch!r}: tags give {dict(zip(KEYS, gf))}, "
                                      f"authored {dict(zip(KEYS, ef))}; output {out!r}")
    rec.nontrivial(True)
    rec.label("two-positions")


def rollup_strategy(tier):
    from . import c16
    return st.tuples(c16.stream_strategy(tier), st.booleans()).map(lambda t: {"stream": t[0], "simulate": t[1]})


def check_rollup(case, rec):
    """Roll-up / paint-on streams with mid-row italics, read with and without simulate_roll_up."""
    from . import c16
    from pycaption import SCCReader
    doc, _rows = c16.build(case["stream"])
    try:
        cs = SCCReader().read(doc, simulate_roll_up=True) if case["simulate"] else SCCReader().read(doc)
    except Exception:  # noqa  (reading SCC is judged by C15 / C16)
        rec.label("unreadable")
        return
    n = 0
    for i, cap in enumerate(cs.get_captions(cs.get_languages()[0])):
        check_balanced_py(cap, f"{case['stream']['mode']} stream (simulate_roll_up={case['simulate']}): caption {i} "
                               f"({cap.get_text()!r}); document: {doc}")
        n += sum(1 for x in cap.nodes if x.type_ == 2)
    rec.nontrivial(n > 0)
    rec.label("simulate_roll_up" if case["simulate"] else "plain")


# ------------------------------------------------------------------ spans styled through named styles

CLASS_IDS = ["narrator", "Italic", "boldUnderline", "S1", "loud", "x"]


def classes_strategy(tier):
    """Sets whose spans are italic / bold / underlined through named styles of the caption set
    (what DFXPReader returns for <span style="a b">), optionally with inline keys as well."""
    flag = st.sampled_from([True, True, False])

    @st.composite
    def build(draw):
        ids = draw(st.lists(st.sampled_from(CLASS_IDS), min_size=1, max_size=4, unique=True))
        styles = {}
        for k, sid in enumerate(ids):
            d = {key: draw(flag) for key in draw(st.lists(st.sampled_from(KEYS), min_size=0, max_size=3, unique=True))}
            if k and draw(st.integers(0, 3)) == 0:
                d["class"] = ids[draw(st.integers(0, k - 1))]      # inherits from an earlier style
            if not d:
                d = {"color": "red"}
            styles[sid] = d
        cues = []
        for ci in range(draw(st.integers(1, 3))):
            nodes = []
            for si in range(draw(st.integers(1, 4))):
                c = {}
                how = draw(st.integers(0, 3))
                if how == 0:
                    c["class"] = draw(st.sampled_from(ids))
                elif how == 1:
                    c["classes"] = draw(st.lists(st.sampled_from(ids), min_size=1, max_size=3))
                elif how == 2:
                    c["class"] = ids[0]         # the same class again and again
                for key in draw(st.lists(st.sampled_from(KEYS), min_size=0 if c else 1, max_size=2, unique=True)):
                    c[key] = True
                nodes += [{"t": f"p{ci}{si}"}, {"s": True, "c": c}, {"t": f"s{ci}{si}"}, {"s": False, "c": c}]
            cstyle = {}
            if draw(st.integers(0, 3)) == 0:
                cstyle = {"class": draw(st.sampled_from(ids))}
            cues.append({"start": (ci + 1) * 2000000, "end": (ci + 1) * 2000000 + 1500000, "nodes": nodes,
                         "style": cstyle, "layout": None})
        # the writer object may have a past: another set in which the same names mean other
        # styles, whose write fails part-way (absolute layout, no video size)
        past = draw(st.sampled_from([None, None, "ok", "fails"]))
        return {"set": {"langs": [{"code": "en-US", "layout": None, "cues": cues}], "styles": styles,
                        "layout": None}, "past": past}
    return build()


def _resolve(style, styles, depth=0):
    """Reference resolution: classes in list order, each resolved recursively, own keys last."""
    out = {}
    if depth > 8:
        return out
    names = style.get("classes") if "classes" in style else ([style["class"]] if "class" in style else [])
    for n in names:
        out.update(_resolve(styles.get(n, {}), styles, depth + 1))
    out.update(style)
    return out


def check_classes(case, rec):
    m = case["set"]
    styles = m["styles"]
    cues = m["langs"][0]["cues"]
    writer = WebVTTWriter()
    if case.get("past"):
        import copy
        prev = copy.deepcopy(m)
        for sid, d in prev["styles"].items():
            for key in KEYS:
                d[key] = not d.get(key)
        if case["past"] == "fails":
            prev["langs"][0]["cues"].append({
                "start": 9000000, "end": 9500000, "nodes": [{"t": "late"}], "style": {},
                "layout": {"origin": [[10, "px"], [10, "px"]], "extent": None, "padding": None, "align": None,
                           "webvtt": None}})
        try:
            writer.write(model.to_pycaption(prev))
        except Exception:  # noqa  (the past is not what is being judged)
            rec.label("past-write-failed")
        rec.label("reused-writer")
    cs = model.to_pycaption(m)
    with must("WebVTTWriter.write"):
        out = writer.write(cs)
    try:
        got = P.parse_webvtt(out)
    except P.RefParseError as e:
        raise Violation(f"webvtt output not well-formed: {e}")
    require(len(got) == len(cues), lambda: f"webvtt: {len(got)} cues for {len(cues)} captions")
    tagmap = {"i": 0, "b": 1, "u": 2}
    for i, (g, cue) in enumerate(zip(got, cues)):
        try:
            chars = P.vtt_styled_chars(g["lines"])
        except P.RefParseError as e:
            raise Violation(f"webvtt: cue {i} tags not properly nested: {e}; payload {g['lines']!r}")
        gl = []
        for ch, open_tags in chars:
            if not ch.isspace():
                f = [False, False, False]
                for t in open_tags:
                    if t in tagmap:
                        f[tagmap[t]] = True
                gl.append((ch, tuple(f)))
        base = _resolve(cue["style"], styles)
        e = []
        stack = []
        for n in cue["nodes"]:
            if "s" in n:
                if n["s"]:
                    stack.append(_resolve(n["c"], styles))
                elif stack:
                    stack.pop()
            elif "t" in n:
                f = tuple(bool(base.get(k)) or any(c.get(k) for c in stack) for k in KEYS)
                e += [(ch, f) for ch in n["t"] if not ch.isspace()]
        require([c for c, _ in gl] == [c for c, _ in e], lambda: f"webvtt: cue {i} characters changed: {g['lines']!r}")
        for k, ((ch, gf), (_, ef)) in enumerate(zip(gl, e)):
            require(gf == ef, lambda: f"webvtt: cue {i} char #{k} {ch!r}: tags give {dict(zip(KEYS, gf))}, the "
                                      f"named styles {styles} give {dict(zip(KEYS, ef))}; nodes {cue['nodes']}; "
                                      f"payload {g['lines']!r}")
    rec.nontrivial(True)
    rec.label("classes")


def subchecks(tier):
    return [
        Sub("webvtt-classes", check_classes, strategy=classes_strategy, examples=(4000, 100000), min_per_shard=200),
        Sub("roundtrip", check_roundtrip, strategy=set_strategy, examples=(3000, 100000), min_per_shard=100),
        Sub("webvtt", check_webvtt, strategy=set_strategy, examples=(6000, 200000), min_per_shard=300),
        Sub("corpus-readers", check_corpus, chunks=corpus_chunks, expand=corpus_expand, exhaustive=True),
        Sub("dfxp-merged", check_merged, strategy=merged_strategy, examples=(2000, 60000), min_per_shard=100),
        Sub("webvtt-layouts", check_layouts, strategy=layouts_strategy, examples=(3000, 80000), min_per_shard=200),
        Sub("scc-rollup", check_rollup, strategy=rollup_strategy, examples=(4000, 100000), min_per_shard=200),
        Sub("scc-readers", check_scc, strategy=scc_strategy, examples=(2500, 100000), min_per_shard=100),
        Sub("generated-readers", check_gen_docs, strategy=gen_docs_strategy, examples=(4000, 100000), min_per_shard=300),
    ]
