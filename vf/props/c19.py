"""C19 - timing adjustment and concurrent-caption merging keep all text in order."""
from fractions import Fraction

from hypothesis import strategies as st

from .. import gen, model
from ..runner import Sub, must, require

from pycaption.base import merge_concurrent_captions

PROPERTY = "C19"
RULE = ("caption sets of 1-3 languages x 0-8 captions with generated runs of identical "
        "(start, end) at every position, nodes TEXT/BREAK/STYLE (some captions hold only blank text or no text node at all); (retime) rate_skew = k/64 with "
        "k in [1,256] (exact in binary floating point, compared exactly with Fraction "
        "arithmetic) or a float in (0,4] - arbitrary, or decimal (n/10, n/100, n/1000, 25/24, 1000/1001 ...) with times on the millisecond grid so that products land within an ulp of a whole number (tolerance 1e-3 us) - integer offsets of both "
        "signs up to +-24h biased to the negated start times; (merge; also once more after the merged lists grew in place) reference run-merging on "
        "the model, plus idempotence. Non-trivial: retime drops >=1 caption while keeping >=1 "
        "or uses skew != 1; merge input has a run of >=2 concurrent captions next to a "
        "non-concurrent one."
        ' Sets may start before zero, hold inverted timespans and spacer captions; skews next to 1 and float offsets equal to -(start x skew) are drawn.')
ASSUMPTIONS = [
    "times are integer microseconds below 24h; float skews are compared with 1e-3 us tolerance; "
    "a new start within that tolerance of 0 is judged only when the exact value of "
    "t*skew+offset (skew = the given double) and its double-precision evaluation have the same sign",
]


def _node():
    return st.one_of(
        st.sampled_from(["a", "b", "Hello", "x y", "é", "&"]).map(lambda t: {"t": t}),
        st.just({"br": 1}),
        st.sampled_from([True, False]).map(lambda s: {"s": s, "c": {"italics": True}}),
    )


def _set_strategy(runs=True):
    @st.composite
    def build(draw):
        nl = draw(st.integers(1, 3))
        langs = []
        for li in range(nl):
            n = draw(st.integers(0, 8))
            cues = []
            t = draw(gen.instants(gen.HOUR))
            if draw(st.integers(0, 9)) == 0:
                t = -draw(st.integers(1, 5 * gen.SEC))      # a set that already holds a caption before zero
            i = 0
            while i < n:
                dur = draw(st.one_of(st.integers(0, 5 * gen.SEC), st.sampled_from([0, 1, 1000])))
                if draw(st.integers(0, 11)) == 0:
                    # an inverted timespan (end before start) is a timespan too: identical ones merge
                    dur = -draw(st.integers(1, min(t, 2 * gen.SEC) or 1)) if t > 0 else dur
                run = 1
                if runs and draw(st.integers(0, 2)) == 0:
                    run = draw(st.integers(2, 4))
                for _ in range(run):
                    if i >= n:
                        break
                    nodes = draw(st.lists(_node(), min_size=1, max_size=3))
                    if draw(st.integers(0, 5)) == 0:
                        # a spacer caption: nothing but blank text (or no text node at all)
                        nodes = [n for n in nodes if "t" not in n]
                        if draw(st.booleans()) or not nodes:
                            nodes.insert(draw(st.integers(0, len(nodes))),
                                         {"t": draw(st.sampled_from(["\u00a0", " ", "\u3000", ""]))})
                    else:
                        nodes.insert(draw(st.integers(0, len(nodes))), {"t": f"c{li}_{i}"})
                    cues.append({"start": t, "end": t + dur, "nodes": nodes, "style": {},
                                 "layout": None})
                    i += 1
                mode = draw(st.integers(0, 3))
                if mode == 0:
                    t = t + dur            # touching
                elif mode == 1:
                    t = t + dur + draw(st.integers(1, 10 * gen.SEC))
                elif mode == 2:
                    t = t                  # same start, (probably) different end
                else:
                    t = t + draw(st.integers(1, 3 * gen.SEC))
            if draw(st.integers(0, 3)) == 0:
                # caption lists need not be chronological
                cues = draw(st.permutations(cues))
            langs.append({"code": ["en", "fr", "de"][li], "layout": None, "cues": cues})
        return {"langs": langs, "styles": {}, "layout": None}
    return build()


def retime_strategy(tier):
    @st.composite
    def build(draw):
        s = draw(_set_strategy())
        starts = [c["start"] for l in s["langs"] for c in l["cues"]] or [0]
        exact = draw(st.integers(0, 3)) != 0
        if exact:
            k = draw(st.one_of(st.integers(1, 256), st.sampled_from([64, 64, 32, 128, 1, 256, 63, 65])))
            skew = None
        else:
            k = None
            skew = draw(st.one_of(
                st.floats(min_value=1e-3, max_value=4.0, allow_nan=False),
                # decimal skews (0.7, 1.1, 1.001, 25/24 ...): products with round times land
                # within an ulp of a whole number
                st.builds(lambda n, d: n / d, st.integers(1, 40), st.sampled_from([10, 10, 100, 1000])),
                st.sampled_from([0.7, 1.1, 0.3, 1.001, 0.999, 25 / 24, 24 / 25, 1000 / 1001, 1001 / 1000]),
                # a skew next to 1 is still a skew (1.8 us per hour at 5e-10)
                st.sampled_from([1 + 5e-10, 1 - 5e-10, 1 + 2 ** -31, 1 - 2 ** -31, 1 + 1e-8, 1 + 2 ** -52])))
            if draw(st.booleans()):
                # times on the millisecond grid
                for l in s["langs"]:
                    for c in l["cues"]:
                        d = c["end"] - c["start"]
                        c["start"] = c["start"] // 100000 * 100000 if draw(st.booleans()) else c["start"] // 1000 * 1000
                        c["end"] = c["start"] + d
                starts = [c["start"] for l in s["langs"] for c in l["cues"]] or [0]
        mode = draw(st.integers(0, 4))
        base = draw(st.sampled_from(starts))
        if mode == 0:
            off = 0
        elif mode == 1:
            off = draw(st.integers(-gen.DAY, gen.DAY))
        else:
            # aim at the boundary "new start == 0" of some caption
            sk = Fraction(k, 64) if k else Fraction(skew)
            off = -int(base * sk) + draw(st.sampled_from([-2, -1, 0, 0, 1, 2, 1000, -1000]))
            if not k and draw(st.booleans()):
                off = -round(base * skew) + draw(st.sampled_from([-1, 0, 0, 0, 1]))
            elif not k and draw(st.booleans()):
                off = -(base * skew)       # a float offset: the new start is exactly 0.0
        return {"set": s, "k": k, "skew": skew, "offset": off}
    return build()


def check_retime(case, rec):
    m = case["set"]
    exact = case["k"] is not None
    skew_f = case["k"] / 64 if exact else case["skew"]
    skew_q = Fraction(case["k"], 64) if exact else Fraction(case["skew"])
    off = case["offset"]
    off_q = Fraction(off)
    cs = model.to_pycaption(m)
    with must("CaptionSet.adjust_caption_timing"):
        if exact and case["k"] == 64 and off == 0:
            cs.adjust_caption_timing()
        else:
            cs.adjust_caption_timing(offset=off, rate_skew=skew_f)
    require(cs.get_languages() == [l["code"] for l in m["langs"]], "languages changed by retiming")
    dropped = kept = 0
    for lang in m["langs"]:
        exp = []
        for c in lang["cues"]:
            ns = c["start"] * skew_q + off_q
            ne = c["end"] * skew_q + off_q
            if not exact and abs(ns) < Fraction(1, 1000):
                # the sign of the new start is judged only where the exact value and the
                # double-precision evaluation of t*skew+offset agree on it
                if (ns >= 0) != (c["start"] * skew_f + off >= 0):
                    rec.label("boundary-skipped")
                    return
                rec.label("float-boundary-judged")
            if ns >= 0:
                exp.append((ns, ne, c["nodes"]))
                kept += 1
            else:
                dropped += 1
        got = cs.get_captions(lang["code"])
        require(len(got) == len(exp),
                lambda: f"language {lang['code']}: {len(got)} captions survive, expected {len(exp)} "
                        f"(skew={skew_f}, offset={off}, starts={[c['start'] for c in lang['cues']]})")
        for g, (ns, ne, nodes) in zip(got, exp):
            if exact:
                ok = Fraction(g.start) == ns and Fraction(g.end) == ne
            else:
                ok = abs(Fraction(g.start) - ns) <= Fraction(1, 1000) and \
                    abs(Fraction(g.end) - ne) <= Fraction(1, 1000)
            require(ok, lambda: f"retimed to ({g.start}, {g.end}), expected ({float(ns)}, {float(ne)})")
            gn = [_strip(model.dump_node(n)) for n in g.nodes]
            require(gn == [_strip(n) for n in nodes], lambda: f"nodes changed by retiming: {gn} vs {nodes}")
    rec.nontrivial((dropped > 0 and kept > 0) or (kept > 0 and skew_q != 1))
    rec.label("exact-skew" if exact else "float-skew")
    if dropped:
        rec.label("drops")


def _strip(n):
    n = dict(n)
    if n.get("layout") is None:
        n.pop("layout", None)
    n.pop("pos", None)
    return n


def merge_strategy(tier):
    return st.tuples(_set_strategy(), st.sampled_from([0, 0, 2, 3]), st.booleans()).map(
        lambda t: {"set": t[0], "grow": t[1], "retime_onto": t[2]})


def ref_merge(cues):
    out = []
    for c in cues:
        if out and (out[-1]["start"], out[-1]["end"]) == (c["start"], c["end"]):
            out[-1]["nodes"] = out[-1]["nodes"] + [{"br": 1}] + c["nodes"]
            out[-1]["n"] += 1
        else:
            out.append({"start": c["start"], "end": c["end"], "nodes": list(c["nodes"]), "n": 1})
    return out


def check_merge(case, rec):
    m = case["set"]
    cs = model.to_pycaption(m)
    with must("merge_concurrent_captions"):
        res = merge_concurrent_captions(cs)
    require(res is not None, "merge_concurrent_captions returned None")
    require(res.get_languages() == [l["code"] for l in m["langs"]], "languages changed by merging")
    nontrivial = False
    for lang in m["langs"]:
        exp = ref_merge(lang["cues"])
        got = res.get_captions(lang["code"])
        require(len(got) == len(exp), lambda: f"{lang['code']}: merged into {len(got)} captions, expected {len(exp)}")
        for g, e in zip(got, exp):
            require((g.start, g.end) == (e["start"], e["end"]),
                    lambda: f"merged caption has times ({g.start},{g.end}), expected ({e['start']},{e['end']})")
            gn = [_strip(model.dump_node(n)) for n in g.nodes]
            require(gn == [_strip(n) for n in e["nodes"]],
                    lambda: f"merged nodes {gn}, expected {e['nodes']}")
        if any(e["n"] >= 2 for e in exp) and len(exp) >= 2:
            nontrivial = True
    first = model.dump(res)
    with must("merge_concurrent_captions (second pass)"):
        res2 = merge_concurrent_captions(res)
    second = model.dump(res2)
    require(_times_nodes(first) == _times_nodes(second), "merging twice differs from merging once")
    # a merged set is an ordinary caption set: its lists may grow in place (or a caption may be
    # retimed onto its neighbour) and be merged again
    from pycaption import Caption, CaptionNode
    grown = False
    for lang in res2.get_languages():
        caps = res2.get_captions(lang)
        if case.get("grow") and len(caps) >= 1:
            last = caps[-1]
            t0, t1 = last.end + 1000000, last.end + 2000000
            for k in range(case["grow"]):
                caps.append(Caption(t0, t1, [CaptionNode.create_text(f"new{k}")]))
            if len(caps) >= case["grow"] + 2 and case.get("retime_onto"):
                caps[0].start, caps[0].end = caps[1].start, caps[1].end
            grown = True
    if grown:
        before = model.dump(res2)
        with must("merge_concurrent_captions (after the lists grew in place)"):
            res3 = merge_concurrent_captions(res2)
        for l in before["langs"]:
            exp3 = ref_merge(l["cues"])
            got3 = res3.get_captions(l["code"])
            require(len(got3) == len(exp3),
                    lambda: f"{l['code']}: after growing in place, merged into {len(got3)} captions, expected {len(exp3)}")
            for g, e in zip(got3, exp3):
                require((g.start, g.end) == (e["start"], e["end"]), "times after the third merge")
        rec.label("merged-again-after-growing")
    rec.nontrivial(nontrivial)
    if nontrivial:
        rec.label("has-run")


def _times_nodes(d):
    return [[(c["start"], c["end"], [_strip(n) for n in c["nodes"]]) for c in l["cues"]]
            for l in d["langs"]]


def subchecks(tier):
    return [
        Sub("retime", check_retime, strategy=retime_strategy, examples=(10000, 400000), min_per_shard=300),
        Sub("merge", check_merge, strategy=merge_strategy, examples=(10000, 400000), min_per_shard=300),
    ]
