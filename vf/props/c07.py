"""C07 - DFXP output is well-formed XML and internally consistent."""
from hypothesis import strategies as st

from .. import corpus, gen, model
from ..ref import parsers as P
from ..runner import Sub, Violation, require

from pycaption.dfxp import DFXPWriter
from pycaption.dfxp.extras import LegacyDFXPWriter, SinglePositioningDFXPWriter
from pycaption.exceptions import RelativizationError

PROPERTY = "C07"
RULE = ("(api) API-built sets: 1-2 languages with codes from a pool including quotes, & and <; "
        "style dictionaries over the keys the writers understand with printable values "
        "including metacharacters; style ids including p / default / bottom / r0 / r1; captions "
        "with class or inline styles, layouts at language / caption / node level, balanced flat "
        "or nested STYLE nodes, metacharacter text; options relativize / fit_to_screen / video "
        "size / write_inline_positioning / force; the three DFXP writers. (corpus) every "
        "caption set any reader returns for the 162 documents shipped in examples/ and "
        "tests/fixtures, x 3 writers x options. (readers) caption sets read from generated "
        "DFXP/SAMI/WebVTT/SRT/MicroDVD documents (C04 generators) and generated SCC pop-on "
        "programs (C05 generator). Output parsed with "
        "lxml.etree without recovery. Non-trivial: an attribute-position string contains one of "
        "& < > \" ', or >= 2 regions, or >= 2 languages, or STYLE nodes present. "
        'In a third of the API cases the writer object has written another generated set '
        "(often with a 'p' style) before. "
        "API caption times advance by 0, 1 us, 400 us, 999 us, 1 s or 2.5 s, so that distinct "
        "timespans may agree to the millisecond (they are not concurrent). ")
ASSUMPTIONS = [
    "style ids and class names contain no whitespace (style= is a list of ids)",
    "RelativizationError and the documented ValueError of fit-to-screen on absolute units are "
    "accepted outcomes",
    "STYLE nodes in API-built sets are balanced (every start has a matching end, LIFO)",
]

WRITERS = {"dfxp": DFXPWriter, "legacy": LegacyDFXPWriter, "single": SinglePositioningDFXPWriter}
META_CHARS = "&<>\"'"

LANGS_PLAIN = ["en", "en-US", "fr", "de-DE", "und", "zh-Hans"]
LANGS_META = ['a"b', "x&y", "<l>", "q'r", "é", "a>b"]
IDS_PLAIN = ["p", "default", "s1", "encc", "x", "p", "default", "s1", "encc", "x", "bottom", "r0", "r1"]
IDS_META = ['q"uote', "a&b", "<i>", "it's"]
VALS_PLAIN = ["monospace", "Arial", "white", "#fff", "1c", "16px", "center", "italic", "left", "after"]
VALS_META = ['"Times New Roman", serif', "'Courier'", "a&b", "x<y", "1>0", "&amp;", '"']


def _style_dict(meta):
    vals = st.sampled_from(VALS_PLAIN + (VALS_META if meta else []))
    keys = ["italics", "bold", "underline", "font-family", "font-size", "color", "text-align",
            "display-align"]

    @st.composite
    def build(draw):
        d = {}
        for k in draw(st.lists(st.sampled_from(keys), min_size=0, max_size=4, unique=True)):
            d[k] = True if k in ("italics", "bold", "underline") else draw(vals)
        if draw(st.integers(0, 9)) == 0:
            # the 'region' key LegacyDFXPWriter understands (a region id - the exported default
            # id, a generated one, or one that does not exist)
            d["region"] = draw(st.sampled_from(["bottom", "bottom", "r0", "r1", "nosuch"]))
        return d
    return build()


def _layout(percent=True):
    from .c13 import layout_strategy
    return layout_strategy(percent_only=percent)


def api_strategy(tier):
    @st.composite
    def build(draw):
        meta_attr = draw(st.booleans())      # metacharacters in attribute positions?
        lang_pool = LANGS_PLAIN + (LANGS_META if meta_attr else [])
        id_pool = IDS_PLAIN + (IDS_META if meta_attr else [])
        nl = draw(st.sampled_from([1, 1, 2]))
        codes = draw(st.lists(st.sampled_from(lang_pool), min_size=nl, max_size=nl, unique=True))
        sids = draw(st.lists(st.sampled_from(id_pool), min_size=0, max_size=3, unique=True))
        styles = {sid: draw(_style_dict(meta_attr)) for sid in sids}
        # chained styles: a style that extends another one (the DFXP reader returns those)
        for sid in sids:
            if len(sids) > 1 and draw(st.integers(0, 3)) == 0:
                styles[sid]["class"] = draw(st.sampled_from([x for x in sids if x != sid]))
        if sids and draw(st.integers(0, 3)) == 0:
            styles[sids[0]] = {"bold": True}      # a style DFXP cannot express at all
        percent = draw(st.integers(0, 3)) != 0
        lay = _layout(percent)
        # (texts may quote the writer's own attribute syntax: they are text, not references)
        ln = gen.lines(meta=True, markers=False,
                       extra=[' region="bottom"', 'x region="r0" y', 'style="p"', 'xml:id="bottom"', "]]", "]]>"])
        langs = []
        for code in codes:
            cues = []
            t = 0
            for _ in range(draw(st.integers(1, 4))):
                t += draw(st.sampled_from([0, 0, 1000000, 2500000, 1, 400, 999]))    # also sub-millisecond steps
                nodes = []
                stack = []
                for k in range(draw(st.integers(1, 5))):
                    kind = draw(st.sampled_from(["t", "t", "br", "open", "close"]))
                    if kind == "t":
                        nodes.append({"t": draw(ln), "layout": draw(st.one_of(st.none(), st.none(), lay))})
                        if draw(st.integers(0, 9)) == 0:
                            # a sequence XML forbids in character data, formed by two adjacent nodes
                            nodes[-1]["t"] = nodes[-1]["t"] + " ]]"
                            nodes.append({"t": "> b", "layout": nodes[-1].get("layout")})
                    elif kind == "br":
                        nodes.append({"br": 1})
                    elif kind == "open" and len(stack) < 2:
                        c = draw(_style_dict(meta_attr))
                        if draw(st.booleans()) and sids:
                            c["class"] = draw(st.sampled_from(sids + ["nosuch"]))
                        L = draw(st.one_of(st.none(), lay))
                        stack.append((c, L))
                        nodes.append({"s": True, "c": c, "layout": L})
                    elif kind == "close" and stack:
                        c, L = stack.pop()
                        nodes.append({"s": False, "c": c, "layout": L})
                while stack:
                    c, L = stack.pop()
                    nodes.append({"s": False, "c": c, "layout": L})
                if not any("t" in n for n in nodes):
                    nodes.insert(0, {"t": draw(ln)})
                cstyle = {}
                m = draw(st.integers(0, 3))
                if m == 1 and sids:
                    cstyle = {"class": draw(st.sampled_from(sids + ["nosuch"]))}
                elif m == 2:
                    cstyle = draw(_style_dict(meta_attr))
                cues.append({"start": t, "end": t + 900000, "nodes": nodes, "style": cstyle,
                             "layout": draw(st.one_of(st.none(), lay))})
            if draw(st.integers(0, 3)) == 0:
                cues = draw(st.permutations(cues))     # not chronological; equal timespans apart
            langs.append({"code": code, "layout": draw(st.one_of(st.none(), st.none(), lay)), "cues": cues})
        opts = {"relativize": draw(st.booleans()), "fit": draw(st.booleans()),
                "vw": draw(st.sampled_from([None, 640, 1920])), "vh": draw(st.sampled_from([None, 360, 1080])),
                "inline": draw(st.booleans()),
                "force": draw(st.sampled_from([None, None] + codes + ["zz"]))}
        return {"writer": draw(st.sampled_from(sorted(WRITERS))),
                "set": {"langs": langs, "styles": styles, "layout": draw(st.one_of(st.none(), lay))},
                "opts": opts, "meta_attr": meta_attr}

    @st.composite
    def with_history(draw):
        case = draw(build())
        if draw(st.integers(0, 2)) == 0:
            prev = draw(build())["set"]
            if draw(st.booleans()):
                prev["styles"]["p"] = {"color": "white", "italics": True}
            case["prev"] = prev
        return case
    return with_history()


def _write(wname, cs, opts, prev=None):
    cls = WRITERS[wname]
    kw = {}
    if wname != "legacy":
        kw = dict(relativize=opts.get("relativize", True), fit_to_screen=opts.get("fit", True),
                  video_width=opts.get("vw"), video_height=opts.get("vh"),
                  write_inline_positioning=opts.get("inline", False))
    w = cls(**kw)
    if prev is not None:
        # the writer object has written another caption set before
        try:
            w.write(prev)
        except Exception:  # noqa
            pass
    if opts.get("force"):
        return w.write(cs, force=opts["force"])
    return w.write(cs)


def _runs(times):
    n = 0
    prev = object()
    for t in times:
        if t != prev:
            n += 1
        prev = t
    return n


def verify_output(out, wname, lang_times, force, what):
    """lang_times: [(code, [(start, end)...])] of the input set, in order."""
    try:
        doc = P.parse_dfxp(out)
    except P.RefParseError as e:
        raise Violation(f"{what}: {e}; output: {out[:700]!r}")
    codes = [c for c, _ in lang_times]
    if wname == "legacy":
        written = [force if force in codes else codes[-1]] if force else codes
    else:
        written = [force] if force in codes else codes
    require(len(doc["divs"]) == len(written),
            lambda: f"{what}: {len(doc['divs'])} div elements for written languages {written}")
    tm = dict(lang_times)
    for d, code in zip(doc["divs"], written):
        require(d["lang"] == code, lambda: f"{what}: div xml:lang={d['lang']!r}, expected {code!r}")
        n_exp = len(tm[code]) if wname == "dfxp" else _runs(tm[code])
        require(len(d["ps"]) == n_exp,
                lambda: f"{what}: {len(d['ps'])} p elements for {len(tm[code])} captions of {code!r} (expected {n_exp})")
        for p in d["ps"]:
            require(p["begin"] is not None and p["end"] is not None,
                    lambda: f"{what}: p without begin/end: {p['attrs']}")
    ids = doc["ids"]
    dup = sorted({i for i in ids if ids.count(i) > 1})
    require(not dup, lambda: f"{what}: duplicate xml:id values {dup}")
    for ref in doc["style_refs"]:
        for r in ref.split():
            require(doc["head_style_count"].get(r, 0) == 1,
                    lambda: f"{what}: style reference {r!r} resolves to {doc['head_style_count'].get(r, 0)} definitions")
    for r in doc["region_refs"]:
        require(doc["head_region_count"].get(r, 0) == 1,
                lambda: f"{what}: region reference {r!r} resolves to {doc['head_region_count'].get(r, 0)} definitions")
    unused = [r for r in doc["region_order"] if r not in doc["region_refs"]]
    require(not unused, lambda: f"{what}: regions defined but never referenced: {unused}")
    return doc


def _attr_strings(m):
    out = [l["code"] for l in m["langs"]] + list(m["styles"])
    for sd in m["styles"].values():
        out += [v for v in sd.values() if isinstance(v, str)]
    for l in m["langs"]:
        for c in l["cues"]:
            out += [v for v in c["style"].values() if isinstance(v, str)]
            for n in c["nodes"]:
                if "s" in n:
                    out += [v for v in n["c"].values() if isinstance(v, str)]
    return out


def _id_collision(w, styles):
    """a non-empty style whose id is one the writer also uses for a region"""
    import re
    pat = r"bottom" if w == "legacy" else r"bottom|r\d+"
    return any(re.fullmatch(pat, sid) and sd for sid, sd in styles.items())


def check_api(case, rec):
    m = case["set"]
    w = case["writer"]
    if rec.is_open("dfxp-attribute-values-not-escaped") and any(
            ch in s for s in _attr_strings(m) for ch in META_CHARS):
        rec.excluded_known("dfxp-attribute-values-not-escaped")
        return
    if rec.is_open("dfxp-style-id-collides-with-region-id") and _id_collision(w, m["styles"]):
        rec.excluded_known("dfxp-style-id-collides-with-region-id")
        return
    cs = model.to_pycaption(m)
    prev = None
    if case.get("prev"):
        if rec.is_open("dfxp-attribute-values-not-escaped") and any(
                ch in s_ for s_ in _attr_strings(case["prev"]) for ch in META_CHARS):
            prev = None
        else:
            prev = model.to_pycaption(case["prev"])
            rec.label("reused-writer")
    try:
        out = _write(w, cs, case["opts"], prev)
    except (RelativizationError, ValueError) as e:
        rec.label("documented-error:" + type(e).__name__)
        return
    except Exception as e:  # noqa
        raise Violation(f"{WRITERS[w].__name__}.write raised {type(e).__name__}: {str(e)[:300]}")
    lt = [(l["code"], [(c["start"], c["end"]) for c in l["cues"]]) for l in m["langs"]]
    doc = verify_output(out, w, lt, case["opts"].get("force"), WRITERS[w].__name__)
    has_style = any("s" in n for l in m["langs"] for c in l["cues"] for n in c["nodes"])
    rec.nontrivial(any(ch in s for s in _attr_strings(m) for ch in META_CHARS)
                   or len(doc["regions"]) >= 2 or len(m["langs"]) >= 2 or has_style)
    rec.label("writer:" + w)
    if len(doc["regions"]) >= 2:
        rec.label("regions>=2")


# ------------------------------------------------------------------ corpus (reader-produced sets)

OPTION_GRID = [
    {},
    {"relativize": True, "fit": True, "vw": 640, "vh": 360},
    {"relativize": False, "fit": False},
    {"relativize": True, "fit": False, "vw": 1920, "vh": 1080, "inline": True},
]


def corpus_chunks(tier):
    n = len(corpus.documents())
    return [{"lo": i, "hi": min(n, i + 6)} for i in range(0, n, 6)]


def corpus_expand(chunk):
    for i in range(chunk["lo"], chunk["hi"]):
        for w in sorted(WRITERS):
            for oi in range(len(OPTION_GRID)):
                yield {"doc": i, "writer": w, "opt": oi}


def check_corpus(case, rec):
    import pycaption
    name, text = corpus.documents()[case["doc"]]
    try:
        cls = pycaption.detect_format(text)
        if cls is None:
            return
        cs = cls().read(text)
    except Exception:  # noqa  (documents that no reader accepts are not in the domain)
        rec.label("unreadable")
        return
    _check_set(cs, case["writer"], OPTION_GRID[case["opt"]], f"{name} via {cls.__name__}", rec)


def _check_set(cs, w, opts, what, rec):
    if rec.is_open("dfxp-attribute-values-not-escaped") and _set_has_meta_attr(cs):
        rec.excluded_known("dfxp-attribute-values-not-escaped")
        return
    if rec.is_open("dfxp-style-id-collides-with-region-id") and _id_collision(w, dict(cs.get_styles())):
        rec.excluded_known("dfxp-style-id-collides-with-region-id")
        return
    lt = [(code, [(c.start, c.end) for c in cs.get_captions(code)]) for code in cs.get_languages()]
    try:
        out = _write(w, cs, opts)
    except (RelativizationError, ValueError) as e:
        rec.label("documented-error:" + type(e).__name__)
        return
    except Exception as e:  # noqa
        raise Violation(f"{what}: {WRITERS[w].__name__}.write raised {type(e).__name__}: {str(e)[:300]}")
    doc = verify_output(out, w, lt, None, f"{what} -> {WRITERS[w].__name__}")
    rec.nontrivial(True)
    rec.label("writer:" + w)
    if len(doc["regions"]) >= 2:
        rec.label("regions>=2")


def _set_has_meta_attr(cs):
    strs = list(cs.get_languages())
    for sid, sd in cs.get_styles():
        strs.append(sid)
        strs += [v for v in sd.values() if isinstance(v, str)]
    for code in cs.get_languages():
        for c in cs.get_captions(code):
            strs += [v for v in (c.style or {}).values() if isinstance(v, str)]
            for n in c.nodes:
                if n.type_ == 2 and isinstance(n.content, dict):
                    strs += [v for v in n.content.values() if isinstance(v, str)]
    return any(ch in s for s in strs for ch in META_CHARS)


# ------------------------------------------------------------------ generated documents

def readers_strategy(tier):
    from . import c04
    from ..ref import sccprog as SP
    scc = SP.program_strategy(max_captions=3).map(lambda p: {"fmt": "scc", "prog": p})
    return st.fixed_dictionaries({
        "doc": st.one_of(c04.dfxp_strategy(tier), c04.sami_strategy(tier), c04.webvtt_strategy(tier),
                         c04.plain_strategy(tier), scc),
        "writer": st.sampled_from(sorted(WRITERS)),
        "opt": st.integers(0, len(OPTION_GRID) - 1),
    })


def check_readers(case, rec):
    from . import c04
    d = case["doc"]
    try:
        if d["fmt"] == "scc":
            from ..ref import sccprog as SP
            from pycaption import SCCReader as reader
            doc = SP.to_scc(d["prog"])
        else:
            doc, reader = c04.build_doc(d)
        cs = reader().read(doc)
    except Exception:  # noqa  (reading is judged by C04/C05; here only readable documents matter)
        rec.label("unreadable")
        return
    _check_set(cs, case["writer"], OPTION_GRID[case["opt"]], f"generated {d['fmt']} document", rec)


def subchecks(tier):
    return [
        Sub("api", check_api, strategy=api_strategy, examples=(10000, 300000), min_per_shard=300),
        Sub("corpus", check_corpus, chunks=corpus_chunks, expand=corpus_expand, exhaustive=True),
        Sub("readers", check_readers, strategy=readers_strategy, examples=(5000, 150000), min_per_shard=300),
    ]
