"""C13 - absolute sizes are relativized exactly or refused; fit-to-screen stays safe."""
import re
from fractions import Fraction

from hypothesis import strategies as st

from .. import model
from ..ref import parsers as P
from ..runner import Sub, Violation, must, require

from pycaption import DFXPWriter, SAMIWriter, WebVTTWriter
from pycaption.exceptions import RelativizationError

PROPERTY = "C13"
RULE = ("one layout per case with sizes over all five units x value grid {0,0.5,1,7,16,100,319.5,"
        "640,1920} + random, each part (origin/extent/padding, 1-4 padding sides) independently "
        "present, attached at caption or style-span level (DFXP), caption / text-node / language "
        "level (WebVTT) or set / language level (SAMI margins); video size both / width only / "
        "height only / none in 320..3840; relativize x fit_to_screen. Reference geometry in "
        "Fractions: px*100/dim, em=16px, pt=4/3px, c*100/32|15. Expected RelativizationError iff "
        "a needed dimension is missing. Non-trivial: at least one non-% unit, or an extent "
        "crossing the 90/95 safe-area edges. "
        'Equal sizes of a layout may be one shared object; the writer may have written '
        'another layout before and another writer with other options may have written an '
        'equal layout. '
        ' Video sizes may be floats (853.33 x 480.5); lengths are also constructed within 2e-7 of a two-decimal rounding tie; the DFXP leg mixes a percent region with an absolute padding under relativize=False, the WebVTT leg absolute units (also all-zero) under relativize=False; writers are constructed with 0-4 leading positional arguments.')
ASSUMPTIONS = [
    "printed value within 0.005 (+1e-9) of the exact percentage; region edges within 0.011",
    "relativize=False is only judged for layouts that are already all-percent (the combination "
    "relativize=False + fit_to_screen=True on absolute units is documented to raise ValueError)",
    "fit-to-screen is judged only for origins inside the safe area (x <= 90, y <= 95)",
    "DFXP language-level (div) layouts are judged separately (subcheck dfxp-div)",
]

UNITS = ["px", "em", "%", "c", "pt"]
GRID = [0, 0.5, 1, 7, 16, 100, 319.5, 640, 1920]


class NeedDim(Exception):
    pass


def rel(size, axis, vw, vh):  # noqa
    """Exact percentage (Fraction) of a [value, unit] size along axis 'h'|'v'."""
    v, u = Fraction(str(size[0])), size[1]
    if u == "%":
        return v
    dim = vw if axis == "h" else vh
    if not dim:
        raise NeedDim()
    dim = Fraction(str(dim))        # (a video size may be given as a float)
    if u == "em":
        v, u = v * 16, "px"
    if u == "pt":
        v, u = v * 96 / 72, "px"
    if u == "px":
        return v * 100 / dim
    if u == "c":
        return v * 100 / (32 if axis == "h" else 15)
    raise ValueError(u)


def rel_layout(L, vw, vh):
    out = {"origin": None, "extent": None, "padding": None}
    if L.get("origin"):
        out["origin"] = [rel(L["origin"][0], "h", vw, vh), rel(L["origin"][1], "v", vw, vh)]
    if L.get("extent"):
        out["extent"] = [rel(L["extent"][0], "h", vw, vh), rel(L["extent"][1], "v", vw, vh)]
    if L.get("padding"):
        p = [x if x is not None else [0, "%"] for x in L["padding"]]
        out["padding"] = [rel(p[0], "v", vw, vh), rel(p[1], "v", vw, vh), rel(p[2], "h", vw, vh),
                          rel(p[3], "h", vw, vh)]   # before, after, start, end
    return out


def _size_s():
    val = st.one_of(st.sampled_from(GRID), st.sampled_from(GRID),
                    st.integers(0, 200000).map(lambda n: n / 100))
    return st.tuples(val, st.sampled_from(UNITS)).map(list)


def _pct_s():
    return st.tuples(st.one_of(st.sampled_from([0, 5, 10, 12.5, 33.33, 50, 85, 90, 95, 100]),
                               st.integers(0, 10000).map(lambda n: n / 100)), st.just("%")).map(list)


def layout_strategy(percent_only):
    sz = _pct_s() if percent_only else st.one_of(_size_s(), _pct_s())

    @st.composite
    def build(draw):
        L = {"origin": None, "extent": None, "padding": None, "align": None, "webvtt": None}
        if draw(st.integers(0, 4)) != 0:
            L["origin"] = [draw(sz), draw(sz)]
        if draw(st.booleans()):
            L["extent"] = [draw(sz), draw(sz)]
        pm = draw(st.integers(0, 5))
        if pm == 0:
            L["padding"] = [draw(st.one_of(st.none(), sz)) for _ in range(4)]
            if all(x is None for x in L["padding"]):
                L["padding"][0] = draw(sz)
        elif pm == 1:
            one = draw(sz)          # one-value shorthand: the same size on all four sides
            L["padding"] = [one, one, one, one]
        elif pm == 2:
            a, b = draw(sz), draw(sz)   # two-value shorthand
            L["padding"] = [a, a, b, b]
        if L["origin"] and draw(st.integers(0, 5)) == 0:
            L["origin"] = [L["origin"][0], L["origin"][0]]
        if draw(st.booleans()):
            L["align"] = [draw(st.sampled_from(["left", "center", "right", "start", "end"])),
                          draw(st.sampled_from([None, "top", "center", "bottom"]))]
        if not (L["origin"] or L["extent"] or L["padding"]):
            L["origin"] = [draw(sz), draw(sz)]
        return L
    return build()


def case_strategy(writer):
    def strat(tier):
        @st.composite
        def build(draw):
            relativize = draw(st.integers(0, 4)) != 0
            L = draw(layout_strategy(percent_only=not relativize))
            mixed = False
            if writer == "dfxp" and not relativize and draw(st.integers(0, 2)) == 0:
                # a percent region with a padding in absolute units (relativization is off)
                ab = _size_s().filter(lambda z: z[1] != "%")
                L["padding"] = [draw(st.one_of(st.none(), ab)) for _ in range(4)]
                if all(x is None for x in L["padding"]):
                    L["padding"][0] = draw(ab)
                mixed = True
            if writer == "webvtt" and not relativize and draw(st.integers(0, 2)) == 0:
                # relativization off and absolute units: WebVTT must drop the positioning -
                # also when every absolute length is zero
                L = draw(layout_strategy(percent_only=False))
                if draw(st.booleans()):
                    for part in ("origin", "extent", "padding"):
                        for sz in (L.get(part) or []):
                            if sz is not None and sz[1] != "%":
                                sz[0] = 0
            dims = st.sampled_from([320, 640, 720, 1280, 1920, 3840, 1000, 853.33, 639.5])
            mode = draw(st.sampled_from(["both", "both", "both", "w", "h", "none"]))
            vw = draw(dims) if mode in ("both", "w") else None
            vh = draw(st.sampled_from([240, 360, 480, 720, 1080, 2160, 1000, 480.5])) if mode in ("both", "h") else None
            if relativize and vw and L.get("origin") and L["origin"][0][1] == "px" and draw(st.integers(0, 3)) == 0:
                # a length whose percentage lies a hair below (or above) a two-decimal rounding tie
                n = draw(st.integers(0, 9000))
                eps = draw(st.sampled_from([-2e-6, -2e-7, 2e-7, 2e-6]))
                L["origin"][0][0] = vw * (n + 0.5 + eps) / 10000
            levels = {"dfxp": ["caption", "caption", "span", "span", "lang"], "webvtt": ["caption", "node", "lang"],
                      "sami": ["set", "lang"]}[writer]
            return {"writer": writer, "layout": L, "vw": vw, "vh": vh, "relativize": relativize,
                    "shared": draw(st.booleans()),
                    "prev": draw(st.one_of(st.none(), st.none(), layout_strategy(percent_only=False))),
                    "fit": draw(st.booleans()), "level": draw(st.sampled_from(levels)),
                    "ctor_positional": draw(st.sampled_from([0, 0, 0, 1, 2, 3])), "mixed_padding": mixed}
        return build()
    return strat


def _build_set(case):
    L = case["layout"]
    lvl = case["level"]
    nodes = [{"t": "hello"}]
    cue = {"start": 1000000, "end": 2000000, "nodes": nodes, "style": {}, "layout": None}
    lang = {"code": "en-US", "layout": None, "cues": [cue]}
    s = {"langs": [lang], "styles": {}, "layout": None}
    if lvl == "caption":
        cue["layout"] = L
    elif lvl == "span":
        cue["nodes"] = [{"s": True, "c": {"italics": True}, "layout": L}, {"t": "hello", "layout": L},
                        {"s": False, "c": {"italics": True}, "layout": L}]
    elif lvl == "node":
        cue["nodes"] = [{"t": "hello", "layout": L}]
    elif lvl == "lang":
        lang["layout"] = L
    elif lvl == "set":
        s["layout"] = L
        s["styles"] = {"p": {"color": "white"}}
    return s


_NUM = r"(\d+(?:\.\d{1,2})?)"


def _pct(tok, signed=False):
    m = re.fullmatch(("(-?" + _NUM[1:] if signed else _NUM) + "%", tok)
    if not m:
        raise Violation(f"length {tok!r} is not a percentage with at most two decimals")
    return Fraction(m.group(1))


def _close(printed, exact, tol=Fraction(5, 1000)):
    return abs(printed - exact) <= tol + Fraction(1, 10 ** 9)


def _expect(case):
    """('error', None) | ('ok', relativized layout dict of Fractions) | ('skip', None)"""
    L = case["layout"]
    all_pct = all(s is None or s[1] == "%" for part in ("origin", "extent", "padding")
                  for s in (L.get(part) or []))
    if not case["relativize"]:
        if not all_pct:
            region_pct = all(s is None or s[1] == "%" for part in ("origin", "extent") for s in (L.get(part) or []))
            if case.get("mixed_padding") and region_pct:
                # relativization off, region in percent, padding in absolute units: the fit rule
                # still governs the region; the padding is not judged
                return "ok", rel_layout(dict(L, padding=None), None, None)
            return "skip", None
        return "ok", rel_layout(L, None, None)
    try:
        return "ok", rel_layout(L, case["vw"], case["vh"])
    except NeedDim:
        return "error", None


def _fit(R):
    """Reference clamp; returns (origin, extent, judged?)"""
    o, e = R["origin"], R["extent"]
    if not o:
        return e, "nofit"
    x, y = o
    if x > 90 or y > 95:
        return None, "outside"
    if not e:
        return [90 - x, 95 - y], "missing"
    w, h = e
    fits = (x + w <= 90) and (y + h <= 95)
    return [min(w, 90 - x) if x + w > 90 else w, min(h, 95 - y) if y + h > 95 else h], \
        ("fits" if fits else "clamped")


def _nontrivial(case, R):
    L = case["layout"]
    units = {s[1] for part in ("origin", "extent", "padding") for s in (L.get(part) or []) if s}
    nt = bool(units - {"%"})
    if R and R.get("origin") and R.get("extent"):
        nt = nt or R["origin"][0] + R["extent"][0] > 90 or R["origin"][1] + R["extent"][1] > 95
    return nt


def _share_sizes(cs):
    """Make equal sizes of a layout one shared object, as Padding.from_xml_attribute does for
    the padding shorthand (readers hand such layouts to writers)."""
    from pycaption.geometry import Padding, Point, Stretch

    def fix(L):
        if L is None:
            return
        pool = {}

        def one(sz):
            return pool.setdefault((sz.value, sz.unit), sz)
        if L.origin:
            L.origin = Point(one(L.origin.x), one(L.origin.y))
        if L.extent:
            L.extent = Stretch(one(L.extent.horizontal), one(L.extent.vertical))
        if L.padding:
            p = L.padding
            L.padding = Padding(one(p.before), one(p.after), one(p.start), one(p.end))
    fix(cs.layout_info)
    for lang in cs.get_languages():
        fix(cs.get_layout_info(lang))
        for c in cs.get_captions(lang):
            fix(c.layout_info)
            for n in c.nodes:
                fix(n.layout_info)


def _run_writer(case, writer_cls, **extra):
    cs = model.to_pycaption(_build_set(case))
    if case.get("shared"):
        _share_sizes(cs)
    # the documented options of BaseWriter, by keyword or - how=1..3 - the first ones positionally
    how = case.get("ctor_positional", 0)
    if how == 3:
        w = writer_cls(case["relativize"], case["vw"], case["vh"], case["fit"], **extra)
    elif how == 2:
        w = writer_cls(case["relativize"], case["vw"], video_height=case["vh"], fit_to_screen=case["fit"], **extra)
    elif how == 1:
        w = writer_cls(case["relativize"], fit_to_screen=case["fit"], video_width=case["vw"],
                       video_height=case["vh"], **extra)
    else:
        w = writer_cls(relativize=case["relativize"], fit_to_screen=case["fit"],
                       video_width=case["vw"], video_height=case["vh"], **extra)
    if case.get("prev"):
        # (a) another writer object with other options wrote an equal layout before, and
        # (b) this writer object wrote another layout before
        try:
            other = writer_cls(relativize=True, fit_to_screen=not case["fit"], video_width=1280,
                               video_height=720)
            other.write(model.to_pycaption(_build_set(case)))
        except Exception:  # noqa
            pass
        try:
            w.write(model.to_pycaption(_build_set(dict(case, layout=case["prev"]))))
        except Exception:  # noqa
            pass
    return w.write(cs)


def _check_region_attrs(attrs, R, case, what):
    """attrs: dict with tts:origin/extent/padding strings."""
    o = attrs.get("{%s}origin" % P.TTS)
    e = attrs.get("{%s}extent" % P.TTS)
    pd = attrs.get("{%s}padding" % P.TTS)
    if R["origin"]:
        require(o is not None, f"{what}: origin missing in output")
        po = [_pct(t) for t in o.split(" ")]
        require(len(po) == 2 and _close(po[0], R["origin"][0]) and _close(po[1], R["origin"][1]),
                lambda: f"{what}: origin written {o!r}, exact is {[float(x) for x in R['origin']]}")
    if R["padding"]:
        require(pd is not None, f"{what}: padding missing in output")
        pp = [_pct(t) for t in pd.split(" ")]
        b, a, s_, en = R["padding"]
        exp = [b, en, a, s_]     # TTML order: before end after start
        require(len(pp) == 4 and all(_close(x, y) for x, y in zip(pp, exp)),
                lambda: f"{what}: padding written {pd!r}, exact (before,end,after,start) is {[float(x) for x in exp]}")
    if case["fit"]:
        fe, kind = _fit(R)
        if kind in ("missing", "fits", "clamped"):
            require(e is not None, f"{what}: fit_to_screen on but no extent written")
            pe = [_pct(t) for t in e.split(" ")]
            x, y = R["origin"]
            require(x + pe[0] <= 90 + Fraction(11, 1000) and y + pe[1] <= 95 + Fraction(11, 1000),
                    lambda: f"{what}: region reaches ({float(x + pe[0])}%, {float(y + pe[1])}%), beyond the 90/95 safe area")
            if kind in ("missing", "fits"):
                require(_close(pe[0], fe[0]) and _close(pe[1], fe[1]),
                        lambda: f"{what}: extent written {e!r}, expected {[float(v) for v in fe]} ({kind})")
            return kind
        return kind
    if R["extent"]:
        require(e is not None, f"{what}: extent missing in output")
        pe = [_pct(t) for t in e.split(" ")]
        require(_close(pe[0], R["extent"][0]) and _close(pe[1], R["extent"][1]),
                lambda: f"{what}: extent written {e!r}, exact is {[float(x) for x in R['extent']]}")
    return "nofit"


def check_dfxp(case, rec):
    if case["level"] == "lang" and rec.is_open("dfxp-div-layout-not-relativized"):
        # open finding: the language-level (div) layout never goes through
        # relativization / fit-to-screen in DFXPWriter (documented upstream as a bug)
        rec.excluded_known("dfxp-div-layout-not-relativized")
        return
    kind, R = _expect(case)
    if kind == "skip":
        rec.label("skipped:absolute-without-relativize")
        return
    try:
        out = _run_writer(case, DFXPWriter)
    except RelativizationError:
        require(kind == "error", lambda: f"dfxp: RelativizationError although all needed dimensions were given: {case}")
        rec.label("refused")
        rec.nontrivial(True)
        return
    except Exception as e:  # noqa
        raise Violation(f"DFXPWriter.write raised {type(e).__name__}: {e}")
    require(kind != "error", lambda: f"dfxp: wrote output although a needed video dimension is missing: {case}")
    try:
        doc = P.parse_dfxp(out)
    except P.RefParseError as e:
        raise Violation(f"dfxp output not well-formed: {e}")
    p = doc["divs"][0]["ps"][0]
    if case["level"] == "caption":
        rid = p["region"]
    elif case["level"] == "lang":
        rid = doc["divs"][0]["region"]
    else:
        spans = [a for ch, ctx in p["chars"] for a in ctx]
        require(spans, "dfxp: no span written for the styled node")
        rid = spans[0].get("region")
    require(rid in doc["regions"], lambda: f"dfxp: region {rid!r} not defined")
    fk = _check_region_attrs(doc["regions"][rid], R, case, f"dfxp {case['level']} region")
    rec.nontrivial(_nontrivial(case, R))
    rec.label("dfxp:" + case["level"])
    rec.label("fit:" + fk)


def check_sami(case, rec):
    kind, R = _expect(case)
    if kind == "skip":
        return
    if not case["layout"].get("padding"):
        # only margins are written by SAMI; still, a needed dimension may be missing
        pass
    try:
        out = _run_writer(case, SAMIWriter)
    except RelativizationError:
        require(kind == "error", lambda: f"sami: RelativizationError although all needed dimensions were given: {case}")
        rec.label("refused")
        rec.nontrivial(True)
        return
    except ValueError:
        rec.label("valueerror")
        return
    except Exception as e:  # noqa
        raise Violation(f"SAMIWriter.write raised {type(e).__name__}: {e}")
    require(kind != "error", lambda: f"sami: wrote output although a needed video dimension is missing: {case}")
    doc = P.parse_sami(out)
    block = doc["classes"].get("p" if case["level"] == "set" else "en-us")
    require(block is not None, lambda: f"sami: style block not found in {sorted(doc['classes'])}")
    if R["padding"]:
        b, a, s_, en = R["padding"]
        for key, exp in (("margin-top", b), ("margin-bottom", a), ("margin-left", s_), ("margin-right", en)):
            require(key in block, lambda: f"sami: {key} missing in style block {block}")
            require(_close(_pct(block[key]), exp),
                    lambda: f"sami: {key} written {block[key]!r}, exact is {float(exp)}%")
    for k, v in block.items():
        if k.startswith("margin"):
            _pct(v)
    rec.nontrivial(_nontrivial(case, R) and bool(R["padding"]))
    rec.label("sami:" + case["level"])


def check_webvtt(case, rec):
    kind, R = _expect(case)
    try:
        out = _run_writer(case, WebVTTWriter)
    except RelativizationError:
        require(kind == "error", lambda: f"webvtt: RelativizationError although all needed dimensions were given: {case}")
        rec.label("refused")
        rec.nontrivial(True)
        return
    except Exception as e:  # noqa
        raise Violation(f"WebVTTWriter.write raised {type(e).__name__}: {e}")
    require(kind != "error", lambda: f"webvtt: wrote output although a needed video dimension is missing: {case}")
    try:
        cues = P.parse_webvtt(out)
    except P.RefParseError as e:
        raise Violation(f"webvtt output not well-formed: {e}")
    require(len(cues) == 1, "webvtt: cue count")
    sm = cues[0]["settings_map"]
    for k in ("position", "line", "size"):
        if k in sm:
            # never a non-percentage length (a width smaller than its paddings gives a
            # negative size; that arithmetic is C12's subject)
            _pct(sm[k], signed=True)
    if kind == "skip":
        require(not any(k in sm for k in ("position", "line", "size")),
                lambda: f"webvtt: relativize=False with absolute units must drop positioning, got {sm}")
        rec.label("dropped-absolute")
        rec.nontrivial(True)
        return
    # with fit-to-screen the cue box must end inside the safe area, paddings or not
    # (position = left edge + left padding, size = width - paddings, so position + size <= x + w)
    if case["fit"] and R["origin"] and R["origin"][0] <= 90 and R["origin"][1] <= 95 \
            and "position" in sm and "size" in sm:
        right = _pct(sm["position"], signed=True) + _pct(sm["size"], signed=True)
        require(right <= 90 + Fraction(11, 1000),
                lambda: f"webvtt: cue box ends at {float(right)}% (position {sm['position']} + size {sm['size']}), "
                        f"beyond the 90% safe-area edge; layout {case['layout']}")
    # values, for layouts without padding (padding arithmetic is C12's subject)
    if not R["padding"] and R["origin"]:
        require("position" in sm or R["origin"][0] == 0 or True, "")
        if "position" in sm:
            require(_close(_pct(sm["position"]), R["origin"][0]),
                    lambda: f"webvtt: position {sm['position']}, exact left edge is {float(R['origin'][0])}%")
        if "line" in sm:
            require(_close(_pct(sm["line"]), R["origin"][1]),
                    lambda: f"webvtt: line {sm['line']}, exact top edge is {float(R['origin'][1])}%")
        if case["fit"]:
            fe, fk = _fit(R)
            if fk in ("missing", "fits", "clamped") and "size" in sm:
                require(R["origin"][0] + _pct(sm["size"]) <= 90 + Fraction(11, 1000),
                        lambda: f"webvtt: cue reaches {float(R['origin'][0] + _pct(sm['size']))}% > 90%")
                if fk in ("missing", "fits"):
                    require(_close(_pct(sm["size"]), fe[0]),
                            lambda: f"webvtt: size {sm['size']}, expected {float(fe[0])}% ({fk})")
        elif R["extent"] and "size" in sm:
            require(_close(_pct(sm["size"]), R["extent"][0]),
                    lambda: f"webvtt: size {sm['size']}, exact width is {float(R['extent'][0])}%")
    rec.nontrivial(_nontrivial(case, R))
    rec.label("webvtt:" + case["level"])


def subchecks(tier):
    return [
        Sub("dfxp", check_dfxp, strategy=case_strategy("dfxp"), examples=(8000, 300000), min_per_shard=300),
        Sub("sami", check_sami, strategy=case_strategy("sami"), examples=(5000, 200000), min_per_shard=300),
        Sub("webvtt", check_webvtt, strategy=case_strategy("webvtt"), examples=(8000, 300000), min_per_shard=300),
    ]
