"""C18 - geometry values compare, hash, parse and print consistently."""
import itertools
import re

from hypothesis import strategies as st

from .. import model
from ..runner import Sub, Violation, must, require

from pycaption.exceptions import CaptionReadSyntaxError, RelativizationError
from pycaption.geometry import (Alignment, HorizontalAlignmentEnum, Layout, Padding, Point,
                                Size, Stretch, UnitEnum, VerticalAlignmentEnum)

PROPERTY = "C18"
RULE = ("(pairs) all ordered pairs inside per-class value pools that are exhaustive in unit / "
        "alignment / None-ness (25 sizes, 36 points, 36 stretches, 256 paddings, 24 alignments, "
        "81 layouts) plus all cross-class pairs of a mixed pool; (rpairs) Hypothesis layouts "
        "paired with a copy mutated in at most one component, or with one magnitude moved by one ulp / 1e-12 relative / 1e-10 absolute (still unequal); (immut) the receiver is hashed first and every result must equal and hash like the same value built afresh; (print) magnitudes up to 1e30 print as plain decimals; (padding) Point / Stretch parsing is repeated while a different value with the same hash is alive; as_percentage_of / "
        "fit_to_screen on generated values, receiver dumped before/after; (parse) ALL strings of "
        "length <=4 (thorough <=5) over the 15 symbols '015.+-eEpxmct% ' judged by a hand-written "
        "recogniser, plus Hypothesis strings to length 12 and perturbed valid sizes; (print) "
        "sizes over a magnitude grid and random non-negative floats; (padding) shorthand of 1-4 "
        "sizes. Non-trivial: pairs differing in exactly one component or equal-by-value distinct "
        "objects; strings that the recogniser accepts or that are one edit from an accepted one; "
        "values whose printed form needs rounding; receivers that the operation changes.")
ASSUMPTIONS = [
    "a Padding component given as None denotes 0% (that is what the constructor documents)",
    "magnitudes are finite and non-negative; digits are ASCII (the quantified alphabet)",
    "float printing tolerance: |printed - value| <= 0.005 * (1 + 1e-9)",
]

UNITS = ["px", "em", "%", "c", "pt"]
HS = ["left", "center", "right", "start", "end"]
VS = ["top", "center", "bottom"]


# ------------------------------------------------------------------ building from specs
# spec := ["size", v, u] | ["point", size, size] | ["stretch", size, size]
#       | ["padding", s|None x4 (before, after, start, end)] | ["align", h|None, v|None]
#       | ["layout", point|None, stretch|None, padding|None, align|None, webvtt|None]

def build(spec):
    if spec is None:
        return None
    k = spec[0]
    if k == "size":
        return Size(spec[1], UnitEnum(spec[2]))
    if k == "point":
        return Point(build(spec[1]), build(spec[2]))
    if k == "stretch":
        return Stretch(build(spec[1]), build(spec[2]))
    if k == "padding":
        return Padding(*[build(x) for x in spec[1:5]])
    if k == "align":
        return Alignment(HorizontalAlignmentEnum(spec[1]) if spec[1] else None,
                         VerticalAlignmentEnum(spec[2]) if spec[2] else None)
    if k == "layout":
        return Layout(origin=build(spec[1]), extent=build(spec[2]), padding=build(spec[3]),
                      alignment=build(spec[4]), webvtt_positioning=spec[5] if len(spec) > 5 else None)
    raise ValueError(spec)


def canon(spec):
    """Reference identity of a value: class + geometric components."""
    if spec is None:
        return None
    k = spec[0]
    if k == "size":
        return ("size", float(spec[1]), spec[2])
    if k in ("point", "stretch"):
        return (k, canon(spec[1]), canon(spec[2]))
    if k == "padding":
        return ("padding",) + tuple(canon(x) if x is not None else ("size", 0.0, "%")
                                    for x in spec[1:5])
    if k == "align":
        return ("align", spec[1], spec[2])
    if k == "layout":
        return ("layout", canon(spec[1]), canon(spec[2]), canon(spec[3]), canon(spec[4]))
    raise ValueError(spec)


def snapshot(obj):
    """Deep structural dump of a geometry object (independent of __eq__/serialized)."""
    if obj is None:
        return None
    if isinstance(obj, Size):
        return ["size", obj.value, obj.unit.value]
    if isinstance(obj, Point):
        return ["point", snapshot(obj.x), snapshot(obj.y)]
    if isinstance(obj, Stretch):
        return ["stretch", snapshot(obj.horizontal), snapshot(obj.vertical)]
    if isinstance(obj, Padding):
        return ["padding", snapshot(obj.before), snapshot(obj.after), snapshot(obj.start),
                snapshot(obj.end)]
    if isinstance(obj, Alignment):
        return ["align", getattr(obj.horizontal, "value", None), getattr(obj.vertical, "value", None)]
    if isinstance(obj, Layout):
        return ["layout", snapshot(obj.origin), snapshot(obj.extent), snapshot(obj.padding),
                snapshot(obj.alignment), obj.webvtt_positioning]
    return ["other", repr(obj)]


def check_pair(case, rec):
    a_spec, b_spec = case["a"], case["b"]
    with must("constructing geometry values"):
        a, b = build(a_spec), build(b_spec)
    ref_equal = canon(a_spec) == canon(b_spec)
    with must("=="):
        got = bool(a == b)
        got_rev = bool(b == a)
        got_ne = bool(a != b)
    require(got == ref_equal, lambda: f"{a!r} == {b!r} is {got}, component-wise equality is {ref_equal}")
    require(got_rev == ref_equal, lambda: f"{b!r} == {a!r} is {got_rev}, expected {ref_equal}")
    require(got_ne == (not ref_equal), lambda: f"{a!r} != {b!r} is {got_ne}, expected {not ref_equal}")
    if ref_equal:
        with must("hash"):
            ha, hb = hash(a), hash(b)
        require(ha == hb, lambda: f"equal values with different hashes: {a!r} / {b!r}")
        d = {a: 1}
        require(b in d, lambda: f"equal value not found as dict key: {b!r}")
    ca, cb = canon(a_spec), canon(b_spec)
    if ref_equal:
        rec.nontrivial(True)
        rec.label("equal")
    else:
        rec.label("unequal")
        if ca[0] == cb[0] and _diff_count(ca, cb) == 1:
            rec.nontrivial(True)
            rec.label("one-component-diff")


def _diff_count(x, y):
    if isinstance(x, tuple) and isinstance(y, tuple) and len(x) == len(y) and x[0] == y[0] \
            and x[0] in ("size", "point", "stretch", "padding", "align", "layout"):
        if x[0] == "size":
            return 0 if x == y else 1
        if x[0] == "align":
            return sum(1 for i in (1, 2) if x[i] != y[i])
        return sum(_diff_count(p, q) for p, q in zip(x[1:], y[1:]))
    return 0 if x == y else 1


# pools ---------------------------------------------------------------------------------

def _pools():
    sizes = [["size", v, u] for u in UNITS for v in (0, 1, 1.5, 33.33, 100)]
    s6 = [["size", 0, "%"], ["size", 0, "px"], ["size", 10, "%"], ["size", 10, "px"],
          ["size", 10.5, "%"], ["size", 2, "c"]]
    points = [["point", a, b] for a in s6 for b in s6]
    stretches = [["stretch", a, b] for a in s6 for b in s6]
    p4 = [None, ["size", 0, "%"], ["size", 5, "%"], ["size", 5, "px"]]
    paddings = [["padding", a, b, c, d] for a in p4 for b in p4 for c in p4 for d in p4]
    aligns = [["align", h, v] for h in [None] + HS for v in [None] + VS]
    o3 = [None, points[14], points[15]]
    e3 = [None, stretches[14], stretches[20]]
    pd3 = [None, ["padding", p4[2], p4[2], p4[2], p4[2]], ["padding", p4[2], p4[1], p4[2], p4[2]]]
    a3 = [None, ["align", "left", "top"], ["align", "left", "bottom"]]
    layouts = [["layout", o, e, p, a, None] for o in o3 for e in e3 for p in pd3 for a in a3]
    mixed = [sizes[0], sizes[7], points[0], points[8], stretches[0], stretches[8], paddings[0],
             paddings[85], aligns[0], aligns[5], layouts[0], layouts[40], layouts[80],
             ["layout", o3[1], None, None, None, "line:10%"]]
    return dict(size=sizes, point=points, stretch=stretches, padding=paddings, align=aligns,
                layout=layouts, mixed=mixed)


def pair_chunks(tier):
    pools = _pools()
    chunks = []
    for name, pool in pools.items():
        n = len(pool)
        step = 16 if name == "padding" else n
        for lo in range(0, n, step):
            chunks.append({"pool": name, "lo": lo, "hi": min(n, lo + step)})
    return chunks


def pair_expand(chunk):
    pool = _pools()[chunk["pool"]]
    for i in range(chunk["lo"], chunk["hi"]):
        for j in range(len(pool)):
            yield {"a": pool[i], "b": pool[j]}


# random layouts -------------------------------------------------------------------------

def _mag():
    return st.one_of(st.integers(0, 10000).map(lambda n: n / 100),
                     st.integers(0, 100).map(float),
                     st.floats(min_value=0, max_value=1e6, allow_nan=False, allow_infinity=False))


def _size():
    return st.tuples(st.just("size"), _mag(), st.sampled_from(UNITS)).map(list)


def _opt(s, p=4):
    return st.one_of(st.none(), *([s] * p))


def _layout_spec():
    point = st.tuples(st.just("point"), _size(), _size()).map(list)
    stretch = st.tuples(st.just("stretch"), _size(), _size()).map(list)
    padding = st.tuples(st.just("padding"), _opt(_size()), _opt(_size()), _opt(_size()),
                        _opt(_size())).map(list)
    align = st.tuples(st.just("align"), st.sampled_from(HS), st.sampled_from([None] + VS)).map(list)
    return st.tuples(st.just("layout"), _opt(point), _opt(stretch), _opt(padding, 2),
                     _opt(align, 2), st.sampled_from([None, None, "line:5%"])).map(list)


def rpairs_strategy(tier):
    @st.composite
    def gen(draw):
        a = draw(_layout_spec())
        mode = draw(st.integers(0, 4))
        if mode == 0:
            b = draw(_layout_spec())
        elif mode == 4:
            # one magnitude differs by a hair (next double, 1e-12 relative, 1e-10 absolute):
            # still a different value
            import json
            import math
            b = json.loads(json.dumps(a))
            sizes = []

            def walk(x):
                if isinstance(x, list):
                    if x and x[0] == "size":
                        sizes.append(x)
                    else:
                        for y in x:
                            walk(y)
            walk(b)
            if sizes:
                sz = sizes[draw(st.integers(0, len(sizes) - 1))]
                v = sz[1]
                how = draw(st.integers(0, 3))
                nv = [math.nextafter(v, math.inf), v * (1 + 1e-12), v + 1e-10,
                      math.nextafter(v, -math.inf) if v > 0 else v + 5e-324][how]
                if nv != v:
                    sz[1] = nv
        else:
            import json
            b = json.loads(json.dumps(a))
            if mode >= 2:
                # mutate exactly one component
                idx = draw(st.integers(1, 4))
                if idx == 1:
                    b[1] = draw(_opt(st.tuples(st.just("point"), _size(), _size()).map(list)))
                elif idx == 2:
                    b[2] = draw(_opt(st.tuples(st.just("stretch"), _size(), _size()).map(list)))
                elif idx == 3:
                    if b[3] is not None:
                        k = draw(st.integers(1, 4))
                        b[3][k] = draw(_opt(_size()))
                    else:
                        b[3] = ["padding", draw(_size()), None, None, None]
                else:
                    b[4] = draw(st.one_of(st.none(), st.tuples(
                        st.just("align"), st.sampled_from(HS), st.sampled_from([None] + VS)).map(list)))
        return {"a": a, "b": b}
    return gen()


# immutability --------------------------------------------------------------------------

def immut_strategy(tier):
    dims = st.sampled_from([None, 320, 640, 720, 1280, 1920, 3840])
    spec = st.one_of(_layout_spec(), _layout_spec(), _size(),
                     st.tuples(st.just("point"), _size(), _size()).map(list),
                     st.tuples(st.just("stretch"), _size(), _size()).map(list),
                     st.tuples(st.just("padding"), _opt(_size()), _opt(_size()), _opt(_size()),
                               _opt(_size())).map(list))
    return st.fixed_dictionaries({"v": spec, "w": dims, "h": dims,
                                  "percent_only": st.booleans()})


def _to_percent(spec):
    if isinstance(spec, list):
        if spec and spec[0] == "size":
            return ["size", spec[1], "%"]
        return [_to_percent(x) for x in spec]
    return spec


def check_immut(case, rec):
    spec = _to_percent(case["v"]) if case["percent_only"] else case["v"]
    with must("constructing geometry value"):
        v = build(spec)
    before = snapshot(v)
    try:
        hash(v)      # the receiver has been hashed before (it sat in a set, say)
    except Exception as e:  # noqa
        raise Violation(f"hash({v!r}) raised {type(e).__name__}: {e}")
    ops = []
    if isinstance(v, Size):
        ops.append(("as_percentage_of(w)", lambda: v.as_percentage_of(video_width=case["w"])))
        ops.append(("as_percentage_of(h)", lambda: v.as_percentage_of(video_height=case["h"])))
    else:
        ops.append(("as_percentage_of", lambda: v.as_percentage_of(case["w"], case["h"])))
    if isinstance(v, Layout):
        ops.append(("fit_to_screen", lambda: v.fit_to_screen()))
        ops.append(("as_percentage_of+fit", lambda: v.as_percentage_of(case["w"], case["h"]).fit_to_screen()))
    changed = False
    for name, op in ops:
        res = None
        try:
            res = op()
        except (RelativizationError, ValueError):
            rec.label("op-raised")
        except Exception as e:  # noqa
            raise Violation(f"{name} on {v!r} raised {type(e).__name__}: {e}")
        after = snapshot(v)
        require(after == before, lambda: f"{name} modified its receiver: {before} -> {after}")
        if res is not None:
            rs = snapshot(res)
            # the result is an ordinary value: equal to, and hashing like, the same value built
            # from scratch
            twin = build(rs)
            require(twin == res and res == twin, lambda: f"result of {name} on {v!r} differs from the same value built afresh: {res!r} vs {twin!r}")
            require(hash(twin) == hash(res) and twin in {res},
                    lambda: f"result of {name} on {v!r} equals {twin!r} but hashes differently")
            if rs != before:
                changed = True
                require(res is not v, f"{name} returned the receiver although the value changed")
                # the result must not share mutable state that later operations alter:
                try:
                    if isinstance(res, Layout):
                        res.fit_to_screen()
                        res.as_percentage_of(640, 360)
                except (RelativizationError, ValueError):
                    pass
                require(snapshot(v) == before, lambda: f"operating on the result of {name} modified the original receiver")
    rec.nontrivial(changed)
    rec.label("changed" if changed else "unchanged")


# parsing -------------------------------------------------------------------------------

ALPHABET = "015.+-eEpxmct% "
_UNIT_RE = "(?:px|em|%|c|pt)"


def recognise(s):
    """Hand-written recogniser: digit+ ('.' digit+)? unit | '0'.  Returns (value, unit)|None."""
    if s == "0":
        return (0.0, None)
    i = 0
    n = len(s)
    while i < n and s[i] in "0123456789":
        i += 1
    if i == 0:
        return None
    j = i
    if j < n and s[j] == ".":
        k = j + 1
        while k < n and s[k] in "0123456789":
            k += 1
        if k == j + 1:
            return None
        j = k
    num, unit = s[:j], s[j:]
    if unit not in ("px", "em", "%", "c", "pt"):
        return None
    return (float(num), unit)


def check_parse(case, rec):
    s = case["s"]
    exp = recognise(s)
    try:
        got = Size.from_string(s)
    except CaptionReadSyntaxError:
        require(exp is None, lambda: f"Size.from_string({s!r}) rejected a valid size")
        rec.label("rejected")
        if case.get("near"):
            rec.nontrivial(True)
        return
    except Exception as e:  # noqa
        raise Violation(f"Size.from_string({s!r}) raised {type(e).__name__} instead of "
                        f"CaptionReadSyntaxError")
    require(exp is not None, lambda: f"Size.from_string({s!r}) accepted an invalid size: {got!r}")
    require(isinstance(got, Size), "from_string did not return a Size")
    require(got.value == exp[0], lambda: f"from_string({s!r}).value = {got.value}, expected {exp[0]}")
    if exp[1] is not None:
        require(got.unit.value == exp[1], lambda: f"from_string({s!r}).unit = {got.unit}, expected {exp[1]}")
    rec.label("accepted")
    rec.nontrivial(True)


def parse_chunks(tier):
    maxlen = 4 if tier == "quick" else 5
    chunks = [{"n": n, "first": None} for n in range(0, 3)]
    for n in range(3, maxlen + 1):
        for c in ALPHABET:
            chunks.append({"n": n, "first": c})
    return chunks


def parse_expand(chunk):
    n = chunk["n"]
    if chunk["first"] is None:
        for t in itertools.product(ALPHABET, repeat=n):
            yield {"s": "".join(t)}
    else:
        for t in itertools.product(ALPHABET, repeat=n - 1):
            s = chunk["first"] + "".join(t)
            yield {"s": s, "near": _near(s)}


def _near(s):
    # one deletion away from an accepted string
    return any(recognise(s[:i] + s[i + 1:]) is not None for i in range(len(s)))


def parse_strategy(tier):
    valid = st.builds(lambda a, b, u: f"{a}{b}{u}", st.integers(0, 99999).map(str),
                      st.one_of(st.just(""), st.integers(0, 9999).map(lambda n: "." + str(n)),
                                st.sampled_from([".0", ".00", ".5", ".50", ".125"])),
                      st.sampled_from(UNITS))

    @st.composite
    def perturbed(draw):
        s = draw(valid)
        k = draw(st.integers(0, 3))
        for _ in range(k):
            op = draw(st.integers(0, 2))
            i = draw(st.integers(0, len(s)))
            ch = draw(st.sampled_from(ALPHABET))
            if op == 0:
                s = s[:i] + ch + s[i:]
            elif op == 1 and s:
                i = min(i, len(s) - 1)
                s = s[:i] + s[i + 1:]
            elif s:
                i = min(i, len(s) - 1)
                s = s[:i] + ch + s[i + 1:]
        return {"s": s, "near": True}
    return st.one_of(st.text(ALPHABET, max_size=12).map(lambda s: {"s": s, "near": False}),
                     perturbed(), perturbed())


# printing ------------------------------------------------------------------------------

_PRINTED = re.compile(r"^(\d+)(?:\.(\d{1,2}))?(px|em|%|c|pt)$")


def print_strategy(tier):
    mag = st.one_of(
        st.integers(0, 2000000).map(lambda n: n / 1000),
        st.integers(0, 100000).map(lambda n: n / 100),
        st.builds(lambda a, b: a + b, st.integers(0, 1000).map(float),
                  st.sampled_from([0.005, 0.015, 0.025, 0.045, 0.995, 0.994, 0.996, 0.004999,
                                   0.005001, 0.1, 0.2, 0.3, 0.7, 0.999, 0.0049])),
        st.builds(lambda a, b: a - b, st.integers(1, 1000).map(float),
                  st.sampled_from([1e-9, 1e-12, 1e-14, 1e-15, 0.00001])),
        st.builds(lambda a, b, c: a - b - c, st.integers(0, 1000).map(lambda n: n / 10),
                  st.integers(0, 100).map(lambda n: n / 10), st.integers(0, 100).map(lambda n: n / 10)
                  ).filter(lambda x: x >= 0),
        st.floats(min_value=0, max_value=1e9, allow_nan=False, allow_infinity=False),
        # very large magnitudes print as plain decimals too (no exponent, no precision limit)
        st.floats(min_value=1e9, max_value=1e30, allow_nan=False, allow_infinity=False),
        st.sampled_from([1e15, 1e16, 1e21, 1e22, 1e26, 2.5e27, 1e28, 1e30, 123456789012345678.9]),
    )
    return st.fixed_dictionaries({"v": mag, "u": st.sampled_from(UNITS)})


def check_print(case, rec):
    v, u = case["v"], case["u"]
    sz = Size(v, UnitEnum(u))
    with must("str(Size)"):
        s = str(sz)
        x = sz.to_xml_attribute()
    require(s == x, lambda: f"str() {s!r} and to_xml_attribute() {x!r} differ")
    m = _PRINTED.match(s)
    require(m is not None, lambda: f"str(Size({v!r}, {u})) = {s!r} is not a plain decimal with <=2 decimals")
    require(m.group(3) == u, lambda: f"unit changed in printing: {s!r}")
    if m.group(2) is not None:
        require(not m.group(2).endswith("0"), lambda: f"trailing zero printed: {s!r}")
    require(len(m.group(1)) == 1 or not m.group(1).startswith("0"), lambda: f"leading zero printed: {s!r}")
    printed = float(m.group(1) + ("." + m.group(2) if m.group(2) else ""))
    require(abs(printed - v) <= 0.005 * (1 + 1e-9) + abs(v) * 1e-15,
            lambda: f"str(Size({v!r}, {u})) = {s!r}: off by {abs(printed - v)} (> 0.005)")
    with must("re-parsing a printed size"):
        back = Size.from_string(s)
    require(str(back) == s, lambda: f"re-parsing {s!r} prints {str(back)!r}")
    require(back.unit.value == u and back.value == printed, lambda: f"re-parsing {s!r} gave {back!r}")
    frac = abs(v * 100 - round(v * 100))
    rec.nontrivial(frac > 1e-9 or v != int(v))
    rec.label("needs-rounding" if frac > 1e-9 else "exact")


# padding shorthand ---------------------------------------------------------------------

def padding_strategy(tier):
    tok = st.builds(lambda a, u: (f"{a}{u}", a, u),
                    st.one_of(st.integers(0, 200), st.integers(0, 20000).map(lambda n: n / 100)),
                    st.sampled_from(UNITS))
    pct = st.builds(lambda a: (f"{a}%", a, "%"), st.integers(0, 100))
    return st.one_of(st.lists(tok, min_size=1, max_size=4), st.lists(tok, min_size=1, max_size=4),
                     st.lists(pct, min_size=2, max_size=4)).map(lambda xs: {"toks": [list(x) for x in xs]})


def check_padding(case, rec):
    toks = case["toks"]
    attr = " ".join(t[0] for t in toks)
    with must(f"Padding.from_xml_attribute({attr!r})"):
        p = Padding.from_xml_attribute(attr)
    vals = [(float(t[1]), t[2]) for t in toks]
    n = len(vals)
    if n == 1:
        before = end = after = start = vals[0]
    elif n == 2:
        before = after = vals[0]
        start = end = vals[1]
    elif n == 3:
        before, after = vals[0], vals[2]
        start = end = vals[1]
    else:
        before, end, after, start = vals
    got = {k: (getattr(p, k).value, getattr(p, k).unit.value) for k in ("before", "end", "after", "start")}
    exp = dict(before=before, end=end, after=after, start=start)
    require(got == exp, lambda: f"padding {attr!r} expanded to {got}, TTML order gives {exp}")
    with must("Padding.to_xml_attribute"):
        out = p.to_xml_attribute()
    with must("re-parsing printed padding"):
        p2 = Padding.from_xml_attribute(out)
    require(p2.to_xml_attribute() == out, "printed padding does not re-parse to itself")
    parts = out.split(" ")
    require(len(parts) == 4, lambda: f"printed padding has {len(parts)} parts: {out!r}")
    for part, key in zip(parts, ("before", "end", "after", "start")):
        require(part == str(getattr(p, key)), lambda: f"printed padding {out!r} is not in before,end,after,start order")
    # two-dimensional values
    if n >= 2:
        two = f"{toks[0][0]} {toks[1][0]}"
        with must("Point/Stretch.from_xml_attribute"):
            pt = Point.from_xml_attribute(two)
            stt = Stretch.from_xml_attribute(two)
        require((pt.x.value, pt.x.unit.value, pt.y.value, pt.y.unit.value) == vals[0] + vals[1],
                lambda: f"Point.from_xml_attribute({two!r}) = {pt!r}")
        require((stt.horizontal.value, stt.horizontal.unit.value, stt.vertical.value,
                 stt.vertical.unit.value) == vals[0] + vals[1],
                lambda: f"Stretch.from_xml_attribute({two!r}) = {stt!r}")
        # ... also while another, different value with the same hash is alive (the library's
        # own hash probed as a black box: c12.hash_offsets)
        if vals[0][1] == vals[1][1] == "%" and float(vals[0][0]).is_integer() and float(vals[1][0]).is_integer():
            from .c12 import hash_offsets
            for cls, kind, names in ((Point, "point", ("x", "y")), (Stretch, "stretch", ("horizontal", "vertical"))):
                for dx, dy in hash_offsets(kind)[:2]:
                    x2, y2 = vals[0][0] + dx, vals[1][0] + dy
                    if x2 < 0 or y2 < 0:
                        continue
                    first = cls.from_xml_attribute(two)          # stays alive
                    other = f"{int(x2)}% {int(y2)}%"
                    with must("from_xml_attribute of a hash twin"):
                        second = cls.from_xml_attribute(other)
                    g2 = (getattr(second, names[0]).value, getattr(second, names[1]).value)
                    require(g2 == (x2, y2), lambda: f"{cls.__name__}.from_xml_attribute({other!r}) = {second!r} "
                                                    f"while {first!r} (same hash) is alive")
                    g1 = (getattr(first, names[0]).value, getattr(first, names[1]).value)
                    require(g1 == (vals[0][0], vals[1][0]), lambda: f"{first!r} changed after parsing {other!r}")
                    require(first != second, lambda: f"{first!r} == {second!r}")
                    rec.label("hash-twin-parsed")
    rec.nontrivial(len(set(vals)) > 1)
    rec.label(f"arity{n}")


def fuzz_chunks(tier):
    import os
    seed = int(os.environ.get("VERIF_SEED", "1") or 1)
    return [{"shard": k, "seed": seed, "tier": tier} for k in range(2 if tier == "quick" else 8)]


def fuzz_expand(chunk):
    from ..runner import fuzz_cases
    runs = 100000 if chunk["tier"] == "quick" else 5000000
    for data in fuzz_cases("c18", chunk["tier"], chunk["shard"], chunk["seed"], runs):
        yield {"s": "".join(ALPHABET[b % len(ALPHABET)] for b in data[:12]), "near": True}


def subchecks(tier):
    return [
        Sub("parse-atheris", check_parse, chunks=fuzz_chunks, expand=fuzz_expand),
        Sub("pairs", check_pair, chunks=pair_chunks, expand=pair_expand, exhaustive=True),
        Sub("rpairs", check_pair, strategy=rpairs_strategy, examples=(8000, 200000), min_per_shard=500),
        Sub("immut", check_immut, strategy=immut_strategy, examples=(8000, 200000), min_per_shard=500),
        Sub("parse-sweep", check_parse, chunks=parse_chunks, expand=parse_expand, exhaustive=True),
        Sub("parse", check_parse, strategy=parse_strategy, examples=(16000, 400000), min_per_shard=1000),
        Sub("print", check_print, strategy=print_strategy, examples=(16000, 400000), min_per_shard=1000),
        Sub("padding", check_padding, strategy=padding_strategy, examples=(8000, 100000), min_per_shard=500),
    ]
