"""C17 - SCC output is structurally valid and re-reads to the same words."""
import re
from fractions import Fraction

from hypothesis import strategies as st

from .. import model
from ..ref import cea608 as R
from ..runner import Sub, Violation, must, require

from pycaption import SCCReader, SCCWriter

PROPERTY = "C17"
RULE = ("caption sets of 1-5 captions, 1-4 lines each (a line may be given as two adjacent text nodes cut at any character) of 1-80 characters over the 95 basic "
        "CEA-608 codes (words of 1-40 characters, hyphenated words, single spaces); start of "
        "each caption = end of the previous one + transmission time of the caption (measured by "
        "a dry run of the writer on that caption alone) + slack in {0..5, 30, 300} frames; the "
        "first start >= its own transmission time. Output checked lexically (header, timecode "
        "TAB words), byte-wise (odd parity), and by decoding it with the independent CEA-608 "
        "decoder: one caption per input caption, rows <= 32 columns, row breaks only at spaces / "
        "after hyphens / inside tokens longer than 32, lines do not overlap in time, caption "
        "visible within three frames of its start; SCCReader on the output gives the same "
        "captions. Non-trivial: a line longer than 32 characters or >= 2 captions. "
        'A caption text may be repeated inside a set, and the writer object may have written '
        'the same set before. '
        "Words include look-alikes of other formats' markup (&amp; &lt; <i> --> ...), which are "
        "plain text here; in 'window' mode a caption ends while the next one is being transmitted; the last caption may end 0-34 ms below a full hour of timecode; the set sits at 0 s or around the 1 h / 2 h / 10 h / 24 h / 100 h marks. "
        ' A twentieth of the sets hold a caption that wraps to exactly 15 rows; a quarter of the captions have a line ending in blanks.')
ASSUMPTIONS = [
    "a row break after a hyphen is a legitimate line-break opportunity (textwrap semantics)",
    "three frames = 3 * 1001/30000 s; the display instant is the first EOC word of the pair",
]

FRAME = R.FRAME_NONDROP
BASIC_CHARS = sorted(ch for ch in R.BASIC_CODE if ch != " ")
LETTERS = "abcdefghijklmnopqrstuvwxyzABCDEFGHIJKLMNOPQRSTUVWXYZ"


def line_strategy():
    word = st.one_of(
        st.text(st.sampled_from(LETTERS), min_size=1, max_size=8),
        st.text(st.sampled_from(LETTERS), min_size=1, max_size=8),
        st.text(st.sampled_from(BASIC_CHARS), min_size=1, max_size=6),
        st.text(st.sampled_from(LETTERS), min_size=9, max_size=40),
        st.builds(lambda a, b: a + "-" + b, st.text(st.sampled_from(LETTERS), min_size=1, max_size=10),
                  st.text(st.sampled_from(LETTERS), min_size=1, max_size=10)),
        st.sampled_from(["a", "I", "32", "well-known", "x" * 32, "y" * 33, "z" * 31]),
        # look-alikes of other formats' markup, all within the basic table: they are plain text
        st.sampled_from(["&amp;", "&lt;", "&gt;", "&#39;", "&lt", "&quot;", "&amp;amp;", "<i>", "</i>", "<br/>",
                         "R&D", "&", "<", ">", "-->", "%", "$5", "#1", "a&b;"]),
    )

    @st.composite
    def build(draw):
        words = []
        n = 0
        target = draw(st.sampled_from([10, 20, 31, 32, 33, 40, 64, 65, 80]))
        while True:
            w = draw(word)
            if n + (1 if words else 0) + len(w) > min(80, target + 8):
                break
            words.append(w)
            n += (1 if len(words) > 1 else 0) + len(w)
            if n >= target:
                break
        if not words:
            words = ["ok"]
        return " ".join(words)[:80].strip() or "ok"
    return build()


def set_strategy(tier):
    @st.composite
    def build(draw):
        caps = []
        tight = draw(st.integers(0, 3)) == 0
        for _ in range(draw(st.integers(6, 12)) if tight else draw(st.integers(1, 5))):
            lines = draw(st.lists(line_strategy(), min_size=1, max_size=4))
            if draw(st.integers(0, 3)) == 0:
                # a text node may end in blanks (readers return such nodes)
                k = draw(st.integers(0, len(lines) - 1))
                lines[k] = lines[k] + draw(st.sampled_from([" ", "  "]))
            caps.append({"lines": lines, "dur": draw(st.integers(20, 200)),
                         "slack": draw(st.sampled_from([0, 1, 2, 3, 4, 5, 30, 300])),
                         "sub": draw(st.integers(0, 33000)),
                         "split": draw(st.one_of(st.none(), st.none(), st.none(), st.integers(0, 600)))})
        if draw(st.integers(0, 19)) == 0:
            # a caption that fills the screen: 3 lines of four 19-letter words and one of three
            # wrap to exactly 15 rows
            wl = draw(st.integers(17, 19))
            big = [" ".join([ch * wl] * 4) for ch in "abc"] + [" ".join(["d" * wl] * 3)]
            caps[draw(st.integers(0, len(caps) - 1))]["lines"] = draw(st.permutations(big))
        if len(caps) >= 2 and draw(st.integers(0, 3)) == 0:
            caps[-1]["lines"] = list(caps[0]["lines"])      # a repeated caption text
        # where on the clock the set sits: around hour boundaries too (seconds added to all times)
        base = draw(st.sampled_from([0, 0, 0, 3590, 3600, 3601, 7200, 7206, 35990, 36000, 86390, 359990]))
        # "window" mode: a caption ends while the next one is already being transmitted (its end
        # lies 0..transmission-time frames before the next start)
        window = (not tight) and draw(st.integers(0, 3)) == 0
        # the last caption may end a hair below a full hour of (non-drop) timecode, i.e. just
        # below k * 3603.6 s of real time - where rounding to a frame carries into the hours
        edge = None
        if base in (3590, 7200, 35990) and draw(st.booleans()):
            edge = draw(st.sampled_from([0, 1, 1000, 8000, 16000, 16683, 17000, 33000, 34000]))
        return {"caps": caps, "lead": draw(st.sampled_from([0, 0, 1, 30, 3000])), "base": base, "window": window,
                "hour_edge": edge,
                "wfrac": [draw(st.integers(0, 100)) for _ in caps],
                "reuse": draw(st.integers(0, 3)) == 0, "tight": tight}
    return build()


def _model_caption(lines, start, end, split=None):
    nodes = []
    for i, ln in enumerate(lines):
        if i:
            nodes.append({"br": 1})
        if split is not None and i == split % len(lines) and len(ln) >= 2:
            # one line given as two adjacent text nodes (the shape readers return around inline
            # spans), cut at any character
            pos = 1 + (split // 7) % (len(ln) - 1)
            nodes.append({"t": ln[:pos]})
            nodes.append({"t": ln[pos:]})
            continue
        nodes.append({"t": ln})
    return {"start": start, "end": end, "nodes": nodes, "style": {}, "layout": None}


def build_set(case):
    """Place the captions on the timeline from a dry run of the writer (transmission words).
    Normal mode: a caption starts after the previous one has ended, its erase command has been
    sent and its own code words have been transmitted, plus slack.  Tight mode: captions follow
    each other back to back - each starts exactly one transmission time (plus 0-2 frames) after
    the previous start and the previous caption stays up until then."""
    w = SCCWriter()
    needs = []
    for c in case["caps"]:
        probe = model.cue_to_py(_model_caption(c["lines"], 0, 1, c.get("split")))
        needs.append((len(w._text_to_code(probe)) // 5 + 8) * FRAME)
    tight = case.get("tight")
    window = case.get("window")
    ends = {}
    starts = []
    t_free = Fraction(0)
    for i, c in enumerate(case["caps"]):
        if i == 0:
            start = needs[0] + case["lead"] * FRAME + c["sub"] + case.get("base", 0) * 10 ** 6
        elif tight:
            start = starts[-1] + needs[i] + (c["slack"] % 3) * FRAME + c["sub"] % 1000
        elif window:
            # the previous caption is long enough for this one to be sent while it is up; it
            # ends somewhere inside this caption's transmission window
            prev = case["caps"][i - 1]
            start = starts[-1] + max(prev["dur"] * FRAME, needs[i] + 2 * FRAME) + c["sub"] % 1000
            ends[i - 1] = Fraction(int(start) + 1) - needs[i] * case["wfrac"][i] / 100
        else:
            start = t_free + needs[i] + c["slack"] * FRAME + c["sub"]
        start = Fraction(int(start) + 1)
        starts.append(start)
        t_free = start + c["dur"] * FRAME + 2 * FRAME
    cues = []
    for i, c in enumerate(case["caps"]):
        end = starts[i] + c["dur"] * FRAME
        if tight and i + 1 < len(starts):
            end = starts[i + 1]
        if i in ends:
            end = max(ends[i], starts[i] + 20 * FRAME)
        if case.get("hour_edge") is not None and i == len(starts) - 1:
            k = int(starts[i] // 3603600000) + 1
            target = Fraction(k * 3603600000 - case["hour_edge"])
            if starts[i] + 20 * FRAME < target < starts[i] + 120 * 10 ** 6:
                end = target
        cues.append(_model_caption(c["lines"], int(starts[i]), int(end), c.get("split")))
    return {"langs": [{"code": "en-US", "layout": None, "cues": cues}], "styles": {}, "layout": None}


_LINE = re.compile(r"^(\d{2}):(\d{2}):(\d{2}):(\d{2})\t([0-9a-f]{4}(?: [0-9a-f]{4})*)$")


def _match_rows(line, rows, what):
    """Consume decoded rows that spell out `line`; returns the number of rows used."""
    rest = line
    used = 0
    while rest:
        require(used < len(rows), lambda: f"{what}: rows {rows} end before the line {line!r} is complete")
        row = rows[used]
        require(len(row) <= 32, lambda: f"{what}: row of {len(row)} columns: {row!r}")
        # (blanks after the text of a row are harmless as long as the row stays within 32 columns)
        row = row.rstrip() or row
        require(rest.startswith(row), lambda: f"{what}: row {row!r} does not continue the line {rest!r}")
        used += 1
        after = rest[len(row):]
        if after:
            if after[0] == " ":
                after = after[1:]
            elif row.endswith("-"):
                pass
            else:
                # broken inside a token: only allowed for tokens longer than a row
                start = len(line) - len(rest)
                cut = start + len(row)
                a = line.rfind(" ", 0, cut) + 1
                b = line.find(" ", cut)
                token = line[a:(b if b >= 0 else len(line))]
                require(len(token) > 32 or "-" in token,
                        lambda: f"{what}: row break inside the word {token!r} ({len(token)} characters): rows {rows}")
        rest = after
    return used


def check_set(case, rec):
    m = build_set(case)
    cs = model.to_pycaption(m)
    cues = m["langs"][0]["cues"]
    writer = SCCWriter()
    if case.get("reuse"):
        # the writer object (and the process) has written the same texts before
        try:
            writer.write(model.to_pycaption(m))
        except Exception:  # noqa
            pass
        rec.label("reused-writer")
    with must("SCCWriter.write"):
        out = writer.write(cs)
    raw = out.split("\n")
    require(raw[0] == "Scenarist_SCC V1.0", lambda: f"first line is {raw[0]!r}")
    parsed = []
    for ln in raw[1:]:
        if ln.strip() == "":
            continue
        mm = _LINE.match(ln)
        require(mm is not None, lambda: f"malformed line {ln!r}")
        h, mi, s, f = (int(x) for x in mm.groups()[:4])
        require(mi < 60 and s < 60 and f < 30, lambda: f"timecode out of range in {ln!r}")
        words = mm.group(5).split(" ")
        for w in words:
            for b in (int(w[:2], 16), int(w[2:], 16)):
                require(bin(b).count("1") % 2 == 1, lambda: f"byte {b:02x} in word {w} has even parity: {ln!r}")
            b1 = int(w[:2], 16) & 0x7F
            b2 = int(w[2:], 16) & 0x7F
            if 0x10 <= b1 <= 0x17 and b2 >= 0x40:
                require(b1 in (0x10, 0x11, 0x12, 0x13, 0x14, 0x15, 0x16, 0x17),
                        lambda: f"word {w} is not a preamble address code of rows 1-15")
                if b1 == 0x10:
                    require(b2 < 0x60, lambda: f"PAC {w} addresses a row that does not exist")
        parsed.append(((h * 3600 + mi * 60 + s) * 30 + f, False, words))
    for i in range(len(parsed) - 1):
        a, b = parsed[i], parsed[i + 1]
        require(a[0] <= b[0], lambda: f"timecodes decrease: {out}")
        require(a[0] + len(a[2]) <= b[0],
                lambda: f"line at frame {a[0]} needs {len(a[2])} frames and overlaps the next line at frame {b[0]}: {out}")
    shown = R.decode_popon(parsed)
    require(len(shown) == len(cues), lambda: f"decoder displays {len(shown)} captions, {len(cues)} were written: {out}")
    for i, (scr, cue) in enumerate(zip(shown, cues)):
        what = f"caption {i}"
        require(len(scr["groups"]) == 1, lambda: f"{what}: displayed as {len(scr['groups'])} separate blocks: {out}")
        g = scr["groups"][0]
        require(1 <= g["row"] <= 15 and g["row"] + len(g["lines"]) - 1 <= 15, f"{what}: rows outside 1-15")
        rows = ["".join(ch for ch, _, _ in line) for line in g["lines"]]
        lines = [ln.rstrip() for ln in model.cue_lines_model(cue)]
        k = 0
        for ln in lines:
            k += _match_rows(ln, rows[k:], what)
        require(k == len(rows), lambda: f"{what}: extra rows {rows[k:]} beyond the caption text")
        late = scr["start"] - cue["start"]
        require(abs(late) <= 3 * FRAME + Fraction(1, 100),
                lambda: f"{what}: becomes visible {float(late / FRAME):.2f} frames away from its start "
                        f"({cue['start']} us): {out}")
    with must("SCCReader.read of SCCWriter output"):
        back = SCCReader().read(out)
    caps = back.get_captions(back.get_languages()[0])
    require(len(caps) == len(cues), lambda: f"SCCReader returns {len(caps)} captions for {len(cues)} written: {out}")
    for i, (c, cue) in enumerate(zip(caps, cues)):
        a = "".join("".join(c.get_text_nodes()).split())
        b = "".join("".join(model.cue_lines_model(cue)).split())
        require(a == b, lambda: f"caption {i} re-reads as {c.get_text()!r}, written {model.cue_lines_model(cue)}")
        simple = all(len(tok) <= 32 and "-" not in tok for ln in model.cue_lines_model(cue) for tok in ln.split())
        if simple:
            wa = "".join(c.get_text_nodes()).split()
            wb = [tok for ln in model.cue_lines_model(cue) for tok in ln.split()]
            require(wa == wb, lambda: f"caption {i}: words {wa} re-read, {wb} written")
    rec.nontrivial(len(cues) >= 2 or any(len(ln) > 32 for c in case["caps"] for ln in c["lines"]))
    rec.label(f"captions:{len(cues)}")


def subchecks(tier):
    return [Sub("writer", check_set, strategy=set_strategy, examples=(5000, 200000), min_per_shard=200)]
