"""C03 - written text survives a conformant parser: escaping and cue structure."""
from hypothesis import strategies as st

from .. import gen, model
from ..ref import parsers as P
from ..runner import Sub, Violation, must, require

from pycaption import DFXPWriter, MicroDVDWriter, SAMIWriter, SRTWriter, WebVTTWriter
from pycaption.dfxp.extras import LegacyDFXPWriter, SinglePositioningDFXPWriter

PROPERTY = "C03"
RULE = ("single-language sets of 1-4 cues with distinct increasing times; each cue has 1-4 lines "
        "built from a pool of every format's delimiters, escapes and look-alikes (& < > quotes "
        "--> entities tags braces pipes CDATA comment markers timing-line look-alikes) mixed "
        "with words over Latin/Greek/CJK/emoji and random printable Unicode; optional empty "
        "lines (consecutive BREAK nodes); optionally a line split into two text nodes; written "
        "by each of the 7 text writers and parsed by the independent parser of the format "
        "(strict XML via lxml for the three DFXP writers, html.parser for SAMI, own WebVTT / "
        "SRT / MicroDVD grammars). Non-trivial: the cue text contains a metacharacter atom or "
        "an empty line. '|' is not generated for MicroDVD. "
        "Also: empty lines in the form of a blank text node (' ', '', U+00A0) between two "
        'breaks, and a writer object that has written another set before. '
        "A line may also be cut into 2-3 adjacent text nodes at any character (also inside a "
        "delimiter such as --> or &amp;), and a caption may begin or end with 1-2 BREAK nodes. "
        " For WebVTT also '-->' split over two text nodes with a tag-less style node between them or in a layout group that is not the last; for the legacy / single / SRT writers a caption may occur twice (same times, same text) and the merged cue must hold the lines of both. A line may have its first or second part inside a style span (italics / bold / underline / colour) with the blank between the parts on either side of the span edge; a style span may open at the end of one line and close on a later one.")
ASSUMPTIONS = [
    "a line split into several text nodes may gain white space where two nodes meet (writers "
    "differ, legitimately, in whether they join text nodes with a space); every authored blank "
    "must still be white space in the output, also at the edge of a node or of a style span",
    "printable = str.isprintable(); the only space separator generated is U+0020",
]

WRITERS = {
    "srt": SRTWriter, "webvtt": WebVTTWriter, "dfxp": DFXPWriter, "dfxp-legacy": LegacyDFXPWriter,
    "dfxp-single": SinglePositioningDFXPWriter, "sami": SAMIWriter, "microdvd": MicroDVDWriter,
}


def case_strategy(tier):
    @st.composite
    def build(draw):
        w = draw(st.sampled_from(sorted(WRITERS)))
        ln = gen.lines(meta=True, pipe=(w != "microdvd"), markers=True, extra=gen.LONG)
        s = draw(gen.simple_set(ln, 1, 4, gen.HOUR, min_dur=gen.SEC, empty_lines=True,
                                split_nodes=True, min_gap=40 * gen.MS, empty_kinds=("br", "br", "style"),
                                split_anywhere=True, edge_breaks=True))
        if w in ("webvtt", "dfxp") and draw(st.integers(0, 3)) == 0:
            # text nodes positioned differently: WebVTT splits such a caption into several cues
            # with the same times (re-assembled by the check)
            L = [{"origin": [[10, "%"], [10, "%"]], "extent": None, "padding": None, "align": ["left", "top"], "webvtt": None},
                 {"origin": [[20, "%"], [70, "%"]], "extent": [[60, "%"], [20, "%"]], "padding": None, "align": None, "webvtt": None}]
            for c in s["langs"][0]["cues"]:
                pick = draw(st.integers(0, 1))
                for n in c["nodes"]:
                    if "br" in n:
                        pick = draw(st.integers(0, 1))
                    if "t" in n:
                        n["layout"] = L[pick]
                c["layouts"] = True
                if w == "webvtt" and draw(st.booleans()):
                    # "-->" formed by two adjacent text nodes in a group that is followed by a
                    # group positioned elsewhere
                    ti = [k for k, n in enumerate(c["nodes"]) if "t" in n]
                    if ti and c["lines"] and c["nodes"][ti[0]]["t"] == c["lines"][0]:
                        first = c["nodes"][ti[0]]
                        cut = draw(st.sampled_from(["-|->", "--|>", "-|-|>"]))
                        parts = ("x " + cut + " y").split("|")
                        c["nodes"][ti[0]:ti[0] + 1] = [{"t": p_, "layout": first.get("layout")} for p_ in parts]
                        c["lines"][0] = "x --> y"
                        c["multi"] = True
                        other = L[1] if first.get("layout") == L[0] else L[0]
                        seen_br = False
                        for n in c["nodes"]:
                            if "br" in n:
                                seen_br = True
                            elif "t" in n and seen_br:
                                n["layout"] = other
        if w == "webvtt" and draw(st.integers(0, 5)) == 0:
            # "-->" formed by two text nodes with a style node between them that writes no tag
            c = s["langs"][0]["cues"][draw(st.integers(0, len(s["langs"][0]["cues"]) - 1))]
            ti = [k for k, n in enumerate(c["nodes"]) if "t" in n]
            if ti and c["lines"] and c["nodes"][ti[0]]["t"] == c["lines"][0]:
                lay = c["nodes"][ti[0]].get("layout")
                st_c = draw(st.sampled_from([{"color": "red"}, {"font-size": "1c"}, {"italics": False}]))
                left, right = draw(st.sampled_from([("wait --", "> now"), ("wait -", "-> now")]))
                c["nodes"][ti[0]:ti[0] + 1] = [{"t": left, "layout": lay}, {"s": True, "c": st_c, "layout": lay},
                                                {"t": right, "layout": lay}, {"s": False, "c": st_c, "layout": lay}]
                c["lines"][0] = "wait --> now"
                c["multi"] = True
        if draw(st.integers(0, 5)) == 0:
            # part of a line inside a style span, the blank between two words sitting at the
            # edge of the styled text (inside or outside the span)
            c = s["langs"][0]["cues"][draw(st.integers(0, len(s["langs"][0]["cues"]) - 1))]
            ti = [k for k, n in enumerate(c["nodes"]) if "t" in n]
            if ti and c["lines"] and c["nodes"][ti[0]]["t"] == c["lines"][0] and " " in c["lines"][0]:
                ln_ = c["lines"][0]
                k = ln_.index(" ")
                lay = c["nodes"][ti[0]].get("layout")
                st_c = draw(st.sampled_from([{"italics": True}, {"bold": True}, {"underline": True},
                                             {"color": "red"}, {"italics": True, "color": "blue"}]))
                a, b = draw(st.sampled_from([(ln_[:k + 1], ln_[k + 1:]), (ln_[:k], ln_[k:])]))
                S, E = {"s": True, "c": st_c, "layout": lay}, {"s": False, "c": st_c, "layout": lay}
                ta, tb = {"t": a, "layout": lay}, {"t": b, "layout": lay}
                shape = draw(st.sampled_from(["first", "second"]))
                c["nodes"][ti[0]:ti[0] + 1] = [S, ta, E, tb] if shape == "first" else [ta, S, tb, E]
                c["multi"] = True
                c["styled"] = True
        if draw(st.integers(0, 7)) == 0:
            # a style span that opens at the end of one line and closes on a later one
            c = s["langs"][0]["cues"][draw(st.integers(0, len(s["langs"][0]["cues"]) - 1))]
            bi = [k for k, n in enumerate(c["nodes"]) if "br" in n]
            ti = [k for k, n in enumerate(c["nodes"]) if "t" in n]
            if bi and ti and ti[0] < bi[0] and ti[-1] > bi[0] and not any("s" in n for n in c["nodes"]):
                st_c = draw(st.sampled_from([{"italics": True}, {"bold": True}, {"underline": True}, {"color": "red"}]))
                S = {"s": True, "c": st_c, "layout": c["nodes"][ti[0]].get("layout")}
                E = {"s": False, "c": st_c, "layout": c["nodes"][ti[-1]].get("layout")}
                c["nodes"] = c["nodes"][:bi[0]] + [S] + c["nodes"][bi[0]:] + [E]
                c["span_over_break"] = True
        if w in ("dfxp-legacy", "dfxp-single", "srt") and draw(st.integers(0, 5)) == 0:
            # the same caption twice (same times, same text): writers that merge concurrent
            # captions join them into one cue holding the lines of both
            cues_ = s["langs"][0]["cues"]
            k = draw(st.integers(0, len(cues_) - 1))
            import copy
            cues_.insert(k + 1, copy.deepcopy(cues_[k]))
            case_dups = True
        else:
            case_dups = False
        case = {"writer": w, "set": s, "dups": case_dups}
        if draw(st.integers(0, 3)) == 0:
            case["prev"] = draw(gen.simple_set(ln, 1, 2, gen.HOUR, min_dur=gen.SEC, empty_lines=False))
        if draw(st.integers(0, 3)) == 0:
            # an "empty line" can also be a text node of blanks between two breaks (readers
            # return ' ' for <br/> <br/> and U+00A0 for an &nbsp; line)
            for c in s["langs"][0]["cues"]:
                out = []
                for i, n in enumerate(c["nodes"]):
                    out.append(n)
                    if "br" in n and i + 1 < len(c["nodes"]) and "t" in c["nodes"][i + 1] \
                            and draw(st.integers(0, 2)) == 0:
                        out.append({"t": draw(st.sampled_from([" ", "", "\u00a0", "  "]))})
                        out.append({"br": 1})
                        c["empties"] = True
                        c["blank_nodes"] = True
                c["nodes"] = out
        return case
    return build()


def _squash(s):
    return "".join(s.split())


def _line_pieces(nodes):
    """text pieces of each visible line of a cue, in order (style nodes carry no text)"""
    lines, cur = [], []
    for n in nodes:
        if "br" in n:
            lines.append(cur)
            cur = []
        elif "t" in n:
            cur.append(n["t"])
    lines.append(cur)
    return [ps for ps in lines if "".join(ps).replace("\u00a0", " ").strip()]


def _blanks_kept(pieces, got):
    """got equals the concatenated pieces where every authored blank is still white space; at
    a seam between two text nodes white space may be added but never removed"""
    import re
    full = "".join(pieces).replace("\u00a0", " ")
    seams, k = set(), 0
    for p_ in pieces[:-1]:
        k += len(p_)
        seams.add(k)
    toks = []
    for j_, ch in enumerate(full):
        if ch.isspace():
            if not toks or toks[-1] != r"\s+":
                toks.append(r"\s+")
            continue
        if j_ in seams and toks and toks[-1] != r"\s+":
            toks.append(r"\s*")
        toks.append(re.escape(ch))
    while toks and toks[0] == r"\s+":
        toks.pop(0)
    while toks and toks[-1] == r"\s+":
        toks.pop()
    return re.fullmatch(r"\s*" + "".join(toks) + r"\s*", got.replace("\u00a0", " ")) is not None


def extract(w, out):
    """[[lines]] per cue as an independent consumer of the format reads them."""
    if w == "srt":
        return [c["lines"] for c in P.parse_srt(out)]
    if w == "webvtt":
        cues = []
        prev = None
        for c in P.parse_webvtt(out):
            lines = P.vtt_payload_lines(c["lines"])
            if prev == (c["start"], c["end"]):
                cues[-1] += lines      # same caption, other positioning
            else:
                cues.append(lines)
            prev = (c["start"], c["end"])
        return cues
    if w.startswith("dfxp"):
        doc = P.parse_dfxp(out)
        return [p["lines"] for d in doc["divs"] for p in d["ps"]]
    if w == "sami":
        doc = P.parse_sami(out)
        if doc["errors"]:
            raise P.RefParseError("; ".join(doc["errors"][:3]))
        cues = []
        for sy in doc["syncs"]:
            for p in sy["ps"]:
                if "".join(p["lines"]).replace(" ", " ").strip():
                    cues.append(p["lines"])
        return cues
    if w == "microdvd":
        return [c["lines"] for c in P.parse_microdvd(out)]
    raise ValueError(w)


def check_case(case, rec):
    w = case["writer"]
    cues = case["set"]["langs"][0]["cues"]
    if w == "srt" and rec.is_open("srt-double-break") and any(c["empties"] for c in cues):
        rec.excluded_known("srt-double-break")
        return
    cs = model.to_pycaption(case["set"])
    writer = WRITERS[w]()
    if case.get("prev"):
        try:
            writer.write(model.to_pycaption(case["prev"]))
        except Exception:  # noqa
            pass
        rec.label("reused-writer")
    with must(f"{WRITERS[w].__name__}.write"):
        out = writer.write(cs)
    try:
        got = extract(w, out)
    except P.RefParseError as e:
        raise Violation(f"{w}: output rejected by the independent parser: {e}; output: {out[:500]!r}")
    if case.get("dups"):
        merged = []
        for c in cues:
            if merged and (merged[-1]["start"], merged[-1]["end"]) == (c["start"], c["end"]):
                m_ = merged[-1]
                merged[-1] = dict(m_, lines=m_["lines"] + c["lines"], multi=m_["multi"] or c["multi"],
                                  empties=m_["empties"] or c["empties"])
            else:
                merged.append(dict(c))
        cues = merged
        rec.label("duplicate-captions-merged")
    require(len(got) == len(cues),
            lambda: f"{w}: independent parser sees {len(got)} cues, {len(cues)} were written: {out[:600]!r}")
    for i, (c, glines) in enumerate(zip(cues, got)):
        g = [x.strip() for x in glines]
        g = [x.replace(" ", " ").strip() for x in g]
        g = [x for x in g if x]
        e = [x.strip() for x in c["lines"]]
        if c["multi"]:
            ok = [_squash(x) for x in g] == [_squash(x) for x in e]
            pcs = _line_pieces(c["nodes"])
            if ok and not case.get("dups") and len(pcs) == len(g):
                # white space may be added where two text nodes meet, but an authored blank
                # is never lost (also where it sits at the edge of a node)
                for ps, x in zip(pcs, g):
                    require(_blanks_kept(ps, x),
                            lambda: f"{w}: cue {i}: an authored blank is missing in {x!r}, text nodes {ps!r}; output: {out[:600]!r}")
        else:
            ok = g == e
        require(ok, lambda: f"{w}: cue {i} lines {g!r}, authored {e!r}; output: {out[:600]!r}")
    nt = any(gen.has_meta(l) for c in cues for l in c["lines"]) or any(c["empties"] for c in cues)
    rec.nontrivial(nt)
    rec.label("writer:" + w)
    if any(c["empties"] for c in cues):
        rec.label("empty-lines")
    if any(c["multi"] for c in cues):
        rec.label("split-nodes")
    if any(c.get("blank_nodes") for c in cues):
        rec.label("blank-text-node-lines")
    if any(c.get("span_over_break") for c in cues):
        rec.label("span-over-line-break")
    if any(c.get("styled") for c in cues):
        rec.label("blank-at-style-edge")
    if any(c.get("layouts") for c in cues):
        rec.label("per-line-layouts")


def subchecks(tier):
    return [Sub("writers", check_case, strategy=case_strategy, examples=(20000, 600000),
                min_per_shard=500)]
