"""C06 - SCC captions appear and disappear at the frames their commands are sent."""
from fractions import Fraction

from hypothesis import strategies as st

from ..ref import cea608 as R
from ..ref import sccprog as SP
from ..runner import Sub, Violation, require

from pycaption import SCCReader
from pycaption.exceptions import CaptionReadTimingError

PROPERTY = "C06"
RULE = ("pop-on programs of 1-4 captions from the C05 model with emphasis on layout in time: "
        "';' and ':' timecodes, 1-40 code words before the EOC, control codes single / all "
        "doubled / randomly doubled, EDM inline before the EOC / on its own line 1-12 frames "
        "before the EOC / absent, display times of 1-3 frames (flash cues) or 40-150 frames, "
        "final caption cleared or not, offset in {0, 1, 2.5, 3599, 3600.25, 3601}. Reference "
        "clock in Fractions: word i of a line is sent at timecode + i frames (1/30 s or "
        "1001/30000 s). Also the same program read with ';' and ':' timecodes must give "
        "instants in ratio 1000:1001. Non-trivial: EOC not at word 0 and (>= 2 captions or "
        "offset != 0 or an EDM within 12 frames of the next EOC). "
        'The SCCReader object is fresh or has a past (see C05). '
        "File layout variants: a line spread over 2-4 frame-contiguous lines at any word, 1-3 "
        "blanks between code words, blanks for the tab after the timecode, blanks / a tab after "
        "the last word; the notation (';' / ':') may change from caption to caption; the stream may end "
        "while a further caption is being loaded (never displayed); a caption may be taken off "
        "the screen by a second EOC sent after null padding; a one-frame caption may be followed "
        "at once by a short second caption (the five-frame rule then keeps it). ")
ASSUMPTIONS = [
    "tolerance 0.01 us against the exact clock (the reader computes in floats)",
    "a gap of <= 5 frames between an erase and the next caption is closed, >= 6 frames is "
    "kept (boundary as pinned by test_overwriting_end_time_difference_under_5_frames)",
    "ends that the offset pushes to or below zero are not compared",
    "captions alternate between the upper and the lower half of the screen (keeps the open "
    "C05 finding about the position tracker out of the timing comparison)",
]

FIVE_FRAMES = 5 * R.FRAME_NONDROP
OFFSETS = [0, 0, 0, 1, 2.5, 3599, 3600.25, 3601]


def program_strategy(tier):
    @st.composite
    def build(draw):
        n = draw(st.integers(1, 4))
        caps = []
        for k in range(n):
            band = list(range(1, 7)) if k % 2 == 0 else list(range(9, 16))
            nrows = draw(st.integers(1, 2))
            rows_idx = sorted(draw(st.lists(st.sampled_from(band), min_size=nrows, max_size=nrows, unique=True)))
            rows = [draw(SP.row_strategy(r)) for r in rows_idx]
            edm = draw(st.sampled_from(["none", "none", "inline", "line"]))
            caps.append({"gap": draw(st.integers(0 if k == 0 else 1, 40)), "enm": True, "rows": rows,
                         "edm": edm, "eoc_line": edm == "line" or draw(st.integers(0, 3)) == 0,
                         "eoc_gap": draw(st.integers(0, 10)),
                         "hold": draw(st.one_of(st.integers(0, 3), st.integers(40, 150))),
                         "clear": draw(st.booleans()),
                         "clear_by": draw(st.sampled_from(["edm", "edm", "edm", "eoc"])),
                         "pad": draw(st.integers(1, 4)),
                         "dbl": draw(st.lists(st.booleans(), min_size=40, max_size=40))})
        for k in range(n):
            # a second EOC takes a caption off the screen only if the other memory is empty at
            # that point: the caption displayed before it was erased (or there was none)
            if caps[k]["clear_by"] == "eoc" and not (k == 0 or caps[k - 1]["clear"] or caps[k]["edm"] != "none"):
                caps[k]["clear_by"] = "edm"
        if n >= 2 and draw(st.integers(0, 5)) == 0:
            # a caption erased one or two frames after it appeared, followed at once by a short
            # second caption (no ENM needed: non-displayed memory is still empty): after the
            # five-frame rule the first one is displayed long enough
            caps[0].update(hold=draw(st.integers(1, 2)), clear=True, clear_by="edm", edm="none", eoc_line=False)
            caps[1].update(gap=draw(st.integers(0, 1)), enm=False, edm="none", eoc_line=False)
            caps[1]["rows"] = caps[1]["rows"][:1]
            caps[1]["rows"][0].update(items=[["c", "Hi"]], to=0)
            quick_follow = True
        # the two timecode notations may alternate between captions (the repository's own
        # fixtures mix them): per caption None = the program's notation, True = ';', False = ':'
        quick_follow = locals().get("quick_follow", False)
        notation = [None] * n
        if draw(st.integers(0, 3)) == 0:
            notation = [draw(st.sampled_from([None, True, False])) for _ in range(n)]
        return {"drop": draw(st.booleans()),
                "double": "none" if quick_follow else draw(st.sampled_from(["none", "all", "random"])),
                "captions": caps, "offset": draw(st.sampled_from(OFFSETS)),
                "reuse": draw(SP.reuse_strategy()), "cuts": draw(SP.cuts_strategy()),
                "spacing": draw(SP.spacing_strategy()), "notation": notation,
                "trailing": draw(SP.trailing_strategy())}
    return build()


def build_lines(prog):
    """Like sccprog.build_lines, plus the 'EDM on its own line shortly before the EOC' shape."""
    lines = []
    t = 0
    plan = prog["double"]
    notation = prog.get("notation") or [None] * len(prog["captions"])
    cur_drop = prog["drop"]
    for ci, cap in enumerate(prog["captions"]):
        base = dict(cap)
        drop = prog["drop"] if notation[ci] is None else notation[ci]
        if cur_drop is False and drop is True:
            # the same digits denote an instant 0.1 % earlier with ';' than with ':' (3.6 s at
            # one hour): move on far enough for the stream to stay in chronological order
            t += 150
        cur_drop = drop
        n_before = len(lines)
        lines_end = _build_caption(lines, t, cap, base, plan, prog)
        t = lines_end
        lines[n_before:] = [(l[0], l[1], drop) for l in lines[n_before:]]
    lines += [(l[0], l[1], cur_drop) for l in SP.trailing_load(prog, t)]
    return SP.apply_cuts(lines, prog.get("cuts"))


def _build_caption(lines, t, cap, base, plan, prog):
    if True:
        if cap["edm"] != "line":
            sub = SP.build_lines({"drop": prog["drop"], "double": plan, "captions": [dict(base, gap=0)]})
            t += cap["gap"]
            for f, w in sub:
                lines.append((t + f, w))
            last_f, last_w = sub[-1]
            t += last_f + len(last_w)
            if not cap["clear"]:
                t += cap["hold"]
            return t
        # load line, EDM line, EOC line
        sub = SP.build_lines({"drop": prog["drop"], "double": plan,
                              "captions": [dict(base, gap=0, edm="none", eoc_line=True, eoc_gap=0,
                                                clear=False, hold=0)]})
        t += cap["gap"]
        load_f, load_w = sub[0]
        eoc_w = sub[1][1]
        lines.append((t, load_w))
        t += len(load_w) + 1
        edm_w = [R.MISC["EDM"]] * (2 if plan == "all" else 1)
        lines.append((t, edm_w))
        t += len(edm_w) + cap["eoc_gap"]
        lines.append((t, eoc_w))
        t += len(eoc_w)
        if cap["clear"]:
            t += cap["hold"]
            lines.append((t, edm_w))
            t += len(edm_w)
        else:
            t += cap["hold"]
    return t


def expected(prog, lines, start=30 * 3600):
    shown = R.decode_popon([(start + l[0], l[2] if len(l) > 2 else prog["drop"], l[1]) for l in lines])
    off = Fraction(prog["offset"]) * 10 ** 6
    scr = []
    for s in shown:
        a = max(Fraction(0), s["start"] - off)
        b = None if s["end"] is None else max(Fraction(0), s["end"] - off)
        end_floored = s["end"] is not None and s["end"] - off <= 0
        scr.append({"start": a, "end": b, "n": len(s["groups"]), "end_floored": end_floored})
    for k in range(len(scr) - 1):
        cur, nxt = scr[k], scr[k + 1]
        if cur["end"] is None:
            cur["end"] = nxt["start"]
        elif 0 <= nxt["start"] - cur["end"] <= FIVE_FRAMES:
            cur["end"] = nxt["start"]
    flash = any(s["end"] is not None and not s["end_floored"] and 0 < s["end"] - s["start"] < 50000
                for s in scr)
    # an end that the offset floored at zero and that the gap rule then moved to the next start
    # may leave a caption of less than 0.05 s: rejecting it or not are both accepted
    for s in scr:
        if s["end"] is not None and s["end_floored"] and 0 < s["end"] - s["start"] < 50000:
            s["flash_maybe"] = True
    if scr and scr[-1]["end"] is None:
        scr[-1]["end"] = scr[-1]["start"] + 4 * 10 ** 6
        scr[-1]["default4s"] = True
    return scr, flash


TOL = Fraction(1, 100)


def check_program(case, rec):
    lines = build_lines(case)
    doc = SP.to_scc(case, lines)
    scr, flash = expected(case, lines)
    if not scr:
        return
    reader = SP.used_reader(case.get("reuse"), doc)
    if case.get("reuse"):
        rec.label("reused-reader:" + case["reuse"][0])
    try:
        cs = reader.read(doc, offset=case["offset"]) if case["offset"] else reader.read(doc)
    except CaptionReadTimingError as e:
        require(flash or any(s.get("flash_maybe") for s in scr),
                lambda: f"CaptionReadTimingError ({e}) although no caption is displayed for less than 0.05 s: {doc}")
        rec.label("flash-rejected")
        rec.nontrivial(True)
        return
    except Exception as e:  # noqa
        raise Violation(f"SCCReader.read raised {type(e).__name__}: {e}: {doc}")
    require(not flash, lambda: f"a caption displayed for less than 0.05 s was returned instead of a timing error "
                               f"({[(float(s['start']), float(s['end'])) for s in scr]}): {doc}")
    caps = cs.get_captions(cs.get_languages()[0])
    exp = [s for s in scr for _ in range(s["n"])]
    require(len(caps) == len(exp), lambda: f"{len(caps)} captions read, {len(exp)} displayed: {doc}")
    prev = None
    for i, (c, e) in enumerate(zip(caps, exp)):
        require(abs(Fraction(c.start) - e["start"]) <= TOL,
                lambda: f"caption {i} starts at {c.start}, its EOC is transmitted at {float(e['start'])} "
                        f"(offset {case['offset']}): {doc}")
        if not e["end_floored"]:
            require(abs(Fraction(c.end) - e["end"]) <= TOL,
                    lambda: f"caption {i} ends at {c.end}, expected {float(e['end'])}"
                            f"{' (start + 4 s)' if e.get('default4s') else ''} (offset {case['offset']}): {doc}")
        require(c.start <= c.end, lambda: f"caption {i}: start {c.start} > end {c.end}: {doc}")
        if prev is not None:
            require(prev <= c.start, lambda: f"caption {i} starts before its predecessor: {doc}")
        prev = c.start
    eoc_not_first = any(len(l[1]) > 2 for l in lines)
    near = any(c["edm"] in ("inline", "line") for c in case["captions"])
    rec.nontrivial(eoc_not_first and (len(case["captions"]) >= 2 or case["offset"] != 0 or near))
    rec.label("drop" if case["drop"] else "nondrop")
    if len({l[2] for l in lines if len(l) > 2}) > 1:
        rec.label("mixed-notation")
    if case.get("cuts"):
        rec.label("cut-lines")
    if case.get("spacing"):
        rec.label("spacing-variant")
    rec.label(f"offset:{case['offset']}")
    if near:
        rec.label("edm-near-eoc")


def check_ratio(case, rec):
    """Metamorphic: ';' vs ':' timecodes of the same program, offset 0."""
    prog = dict(case, offset=0, notation=None)
    lines = [(l[0], l[1]) for l in build_lines(prog)]
    res = []
    for drop in (True, False):
        p = dict(prog, drop=drop)
        doc = SP.to_scc(p, lines)
        try:
            cs = SCCReader().read(doc)
            res.append([(c.start, c.end) for c in cs.get_captions(cs.get_languages()[0])])
        except CaptionReadTimingError:
            res.append("timing-error")
        except Exception as e:  # noqa
            raise Violation(f"SCCReader.read raised {type(e).__name__}: {e}")
    a, b = res
    if a == "timing-error" or b == "timing-error":
        rec.label("flash")
        return
    require(len(a) == len(b), "different caption counts for ';' and ':' timecodes")
    scr, _ = expected(dict(prog, drop=True), lines)
    exp = [s for s in scr for _ in range(s["n"])]
    for i, ((sa, ea), (sb, eb)) in enumerate(zip(a, b)):
        require(abs(Fraction(sb) * 1000 - Fraction(sa) * 1001) <= 20,
                lambda: f"caption {i}: start {sb} with ':' timecode vs {sa} with ';' is not in ratio 1001:1000")
        if i < len(exp) and not exp[i].get("default4s"):
            require(abs(Fraction(eb) * 1000 - Fraction(ea) * 1001) <= 20,
                    lambda: f"caption {i}: end {eb} with ':' timecode vs {ea} with ';' is not in ratio 1001:1000")
    rec.nontrivial(len(a) >= 1)


def subchecks(tier):
    return [
        Sub("timing", check_program, strategy=program_strategy, examples=(5000, 300000), min_per_shard=200),
        Sub("ratio", check_ratio, strategy=program_strategy, examples=(1500, 100000), min_per_shard=100),
    ]
