"""Executable read / write operations on JSON requests (used in-process and by zygote children)."""
from . import import_sut, model

import_sut()
import pycaption  # noqa: E402
from pycaption import (DFXPReader, DFXPWriter, MicroDVDReader, MicroDVDWriter, SAMIReader,  # noqa: E402
                       SAMIWriter, SCCReader, SCCWriter, SRTReader, SRTWriter, WebVTTReader,
                       WebVTTWriter)
from pycaption.dfxp.extras import LegacyDFXPWriter, SinglePositioningDFXPWriter  # noqa: E402

READERS = {"srt": SRTReader, "webvtt": WebVTTReader, "dfxp": DFXPReader, "sami": SAMIReader,
           "microdvd": MicroDVDReader, "scc": SCCReader}
WRITERS = {"srt": SRTWriter, "webvtt": WebVTTWriter, "dfxp": DFXPWriter, "sami": SAMIWriter,
           "microdvd": MicroDVDWriter, "scc": SCCWriter, "dfxp-legacy": LegacyDFXPWriter,
           "dfxp-single": SinglePositioningDFXPWriter}


def make_reader(fmt, ctor=None):
    return READERS[fmt](**(ctor or {}))


def make_writer(name, ctor=None):
    ctor = dict(ctor or {})
    if name == "dfxp-legacy":
        ctor = {}
    return WRITERS[name](**ctor)


def do_read(reader, doc, call=None):
    return reader.read(doc, **(call or {}))


def do_write(writer, cs, call=None):
    return writer.write(cs, **(call or {}))


def execute(req):
    """Runs one request on fresh objects; returns {"ok": ...} or {"err": [type, message]}."""
    try:
        if req["op"] == "read":
            cs = do_read(make_reader(req["fmt"], req.get("ctor")), req["doc"], req.get("call"))
            return {"ok": model.dump(cs)}
        if req["op"] == "write":
            cs = model.to_pycaption(req["set"])
            return {"ok": do_write(make_writer(req["writer"], req.get("ctor")), cs, req.get("call"))}
        if req["op"] == "default_lang":
            from pycaption.base import DEFAULT_LANGUAGE_CODE
            return {"ok": DEFAULT_LANGUAGE_CODE}
        return {"err": ["HarnessError", "unknown op"]}
    except Exception as e:  # noqa
        return {"err": [type(e).__name__, str(e)[:300]]}
