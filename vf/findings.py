"""Parser for /verif/KNOWN_FINDINGS.txt (never written at run time).

    open:  property=C05 id=<slug> witness=findings/<file>.json <what fails>
    fixed: property=C20 <commit> <what failed>

An `open` entry makes the check print a KNOWN-FINDING line (exit 0) while the
witness still fails, and enables the narrow, input-shaped exclusion the
property module keeps under the same id.  A `fixed` entry suppresses nothing.
"""
import os
import re

from . import VERIF_DIR, HarnessError

PATH = os.path.join(VERIF_DIR, "KNOWN_FINDINGS.txt")


def load(path=PATH):
    out = []
    if not os.path.exists(path):
        return out
    with open(path) as f:
        for ln in f:
            ln = ln.strip()
            if not ln or ln.startswith("#"):
                continue
            m = re.match(r"open:\s+property=(C\d+)\s+id=(\S+)\s+witness=(\S+)\s+(.*)$", ln)
            if m:
                out.append(dict(state="open", property=m.group(1), id=m.group(2),
                                witness=m.group(3), text=m.group(4)))
                continue
            m = re.match(r"fixed:\s+property=(C\d+)\s+(\S+)\s+(.*)$", ln)
            if m:
                out.append(dict(state="fixed", property=m.group(1), commit=m.group(2),
                                text=m.group(3)))
                continue
            raise HarnessError(f"KNOWN_FINDINGS.txt: cannot parse line: {ln}")
    return out
