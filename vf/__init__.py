"""Verification framework for pbs/pycaption (property-based testing / fuzzing).

Importing this package puts the repository under test ($VERIF_REPO, default
/repo) first on sys.path and checks that `pycaption` really resolves there, so
every check runs the *current working tree* (or a mutated scratch copy when
the sensitivity tooling points VERIF_REPO elsewhere).
"""
import os
import sys

VERIF_DIR = os.path.dirname(os.path.dirname(os.path.abspath(__file__)))
REPO = os.path.abspath(os.environ.get("VERIF_REPO", "/repo"))

_deps = os.path.join(VERIF_DIR, ".deps")
if os.path.isdir(_deps) and _deps not in sys.path:
    sys.path.insert(0, _deps)
if sys.path[0] != REPO:
    if REPO in sys.path:
        sys.path.remove(REPO)
    sys.path.insert(0, REPO)


class HarnessError(Exception):
    """Raised for failures of the verification machinery itself (exit 2)."""


def import_sut():
    import pycaption  # noqa
    f = os.path.abspath(pycaption.__file__)
    if not f.startswith(REPO + os.sep):
        raise HarnessError(f"pycaption imported from {f}, expected under {REPO}")
    return pycaption
