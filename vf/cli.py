import argparse
import os
import sys
import traceback


def main(argv=None):
    ap = argparse.ArgumentParser(prog="check")
    ap.add_argument("property")
    ap.add_argument("--tier", choices=["quick", "thorough"], default=None)
    ap.add_argument("--replay", default=None)
    ap.add_argument("--sub", action="append", default=None)
    ap.add_argument("--scale", type=float, default=1.0)
    ap.add_argument("--procs", type=int, default=None)
    a = ap.parse_args(argv)
    tier = a.tier or os.environ.get("VERIF_TIER") or "quick"
    if tier not in ("quick", "thorough"):
        tier = "quick"
    try:
        seed = int(os.environ.get("VERIF_SEED", "1"))
    except ValueError:
        seed = 1
    try:
        from vf import runner
        prop = a.property.upper()
        if a.replay:
            return runner.replay_file(prop, a.replay, tier)
        return runner.run_property(prop, tier, seed, a.sub, a.scale, a.procs)
    except Exception:  # noqa
        print("HARNESS-ERROR:", traceback.format_exc(), file=sys.stderr)
        return 2


if __name__ == "__main__":
    sys.exit(main())
