"""Coverage-guided (atheris / libFuzzer) generator for string-input properties.

    python -m vf.fuzz_target <c20|c18> <corpus_dir> <artifact_dir> <runs> <seed>

The oracle of the property runs inside the target, so a violation stops the campaign and the
offending input is saved under <artifact_dir>; inputs that reached new coverage are kept in
<corpus_dir>.  The caller (the property's `atheris` subcheck) re-judges every saved input
through the normal check path, so verdicts never come from this process.
"""
import os
import sys


def main():
    which, corpus, artifacts, runs, seed = sys.argv[1:6]
    import vf   # puts the repository under test first on sys.path
    import atheris
    with atheris.instrument_imports(include=["pycaption"]):
        import pycaption  # noqa  (must be imported for the first time here to be instrumented)
        import pycaption.geometry  # noqa
    vf.import_sut()
    from vf.runner import Recorder, Violation
    rec = Recorder(())
    if which == "c20":
        from vf.props import c20 as mod

        def judge(s):
            mod.check_string({"s": s}, rec)
    else:
        from vf.props import c18 as mod

        def judge(s):
            mod.check_parse({"s": s}, rec)

    def one(data):
        s = data.decode("utf-8", "ignore")
        if which == "c18":
            # keep to the quantified alphabet: map every byte onto the 15 symbols
            s = "".join(mod.ALPHABET[b % len(mod.ALPHABET)] for b in data[:12])
        try:
            judge(s)
        except Violation:
            raise
    os.makedirs(corpus, exist_ok=True)
    os.makedirs(artifacts, exist_ok=True)
    argv = [sys.argv[0], corpus, f"-runs={runs}", f"-seed={seed}", "-max_len=64",
            f"-artifact_prefix={artifacts}/", "-print_final_stats=1", "-verbosity=0"]
    atheris.Setup(argv, one)
    atheris.Fuzz()


if __name__ == "__main__":
    main()
