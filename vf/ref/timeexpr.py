"""Exact-arithmetic reading of timestamp spellings (Fractions of microseconds).

A spelling is a JSON dict:
  {"k": "clock", "h": int|None, "hd": min hour digits, "m": int, "s": int,
   "frac": "digits"|None, "ff": int|None}
  {"k": "off", "count": "12.5", "metric": "h|m|s|ms|f"}
"""
from fractions import Fraction

from hypothesis import strategies as st

US = {"h": 3600 * 10 ** 6, "m": 60 * 10 ** 6, "s": 10 ** 6, "ms": 1000}
FPS = 30


def value(sp):
    """Exact instant denoted, in microseconds."""
    if sp["k"] == "clock":
        v = Fraction(((sp["h"] or 0) * 60 + sp["m"]) * 60 + sp["s"]) * 10 ** 6
        if sp.get("frac"):
            v += Fraction(int(sp["frac"]), 10 ** len(sp["frac"])) * 10 ** 6
        if sp.get("ff") is not None:
            v += Fraction(sp["ff"], FPS) * 10 ** 6
        return v
    if sp["k"] == "off":
        c = Fraction(sp["count"])
        if sp["metric"] == "f":
            return c / FPS * 10 ** 6
        return c * US[sp["metric"]]
    raise ValueError(sp)


def text(sp, sep="."):
    if sp["k"] == "clock":
        if sp["h"] is None:
            s = "%02d:%02d" % (sp["m"], sp["s"])
        else:
            s = "%0*d:%02d:%02d" % (sp.get("hd", 2), sp["h"], sp["m"], sp["s"])
        if sp.get("frac"):
            s += sep + sp["frac"]
        if sp.get("ff") is not None:
            s += ":%02d" % sp["ff"]
        return s
    return sp["count"] + sp["metric"]


def acceptable(sp):
    """Set of integer-microsecond readings the property allows for this spelling."""
    v = value(sp)
    if v.denominator == 1:
        return {int(v)}
    fl = v.numerator // v.denominator
    frame_arith = (sp["k"] == "clock" and sp.get("ff") is not None) or \
                  (sp["k"] == "off" and sp["metric"] == "f")
    if frame_arith:
        return {fl}          # sub-microsecond remainders of frame arithmetic are dropped
    return {fl, fl + 1}      # over-long second fractions: either neighbour


# ------------------------------------------------------------------ strategies

def _hms(max_h):
    h = st.one_of(st.integers(0, max_h), st.sampled_from([0, 0, 1, 9, 10, 23, 24, 25, 99, 100]).filter(lambda x: x <= max_h))
    ms = st.one_of(st.integers(0, 59), st.sampled_from([0, 1, 9, 10, 59]))
    return st.tuples(h, ms, ms)


def clock_ms(max_h=999, hour_optional=False, frac_optional=False, hd=(2, 3)):
    """hh:mm:ss(.|,)mmm spellings (SRT, WebVTT)."""
    @st.composite
    def build(draw):
        h, m, s = draw(_hms(max_h))
        frac = "%03d" % draw(st.one_of(st.integers(0, 999), st.sampled_from([0, 1, 9, 10, 99, 100, 500, 999])))
        if frac_optional and draw(st.integers(0, 4)) == 0:
            frac = None
        sp = {"k": "clock", "h": h, "hd": draw(st.sampled_from(list(hd))), "m": m, "s": s,
              "frac": frac, "ff": None}
        if hour_optional and h == 0 and draw(st.booleans()):
            sp["h"] = None
        return sp
    return build()


def ttml_time(max_h=999):
    """Any TTML time expression pycaption documents: clock (+fraction | +frames), offsets."""
    @st.composite
    def clock(draw):
        h, m, s = draw(_hms(max_h))
        sp = {"k": "clock", "h": h, "hd": draw(st.sampled_from([2, 2, 3])), "m": m, "s": s,
              "frac": None, "ff": None}
        mode = draw(st.integers(0, 5))
        if mode in (1, 2, 3):
            nd = draw(st.one_of(st.integers(1, 9), st.sampled_from([1, 2, 3, 3, 3, 4, 6, 7]), st.integers(10, 45)))
            digs = draw(st.one_of(
                st.text("0123456789", min_size=nd, max_size=nd),
                st.sampled_from(["0" * nd, "9" * nd, "1" + "0" * (nd - 1), "0" * (nd - 1) + "1",
                                 "5" * nd, "001"[:nd].ljust(nd, "0")])))
            sp["frac"] = digs
        elif mode == 4:
            sp["ff"] = draw(st.integers(0, 29))
        return sp

    @st.composite
    def off(draw):
        metric = draw(st.sampled_from(["h", "m", "s", "ms", "f", "s", "ms"]))
        maxd = {"h": 3, "m": 3, "s": 6, "ms": 3, "f": 2}[metric]
        if metric == "s" and draw(st.integers(0, 5)) == 0:
            maxd = 45       # arbitrarily long second fractions
        lim = {"h": max_h, "m": max_h * 60, "s": max_h * 3600, "ms": max_h * 3600000,
               "f": max_h * 3600 * 30}[metric]
        ip = draw(st.one_of(st.integers(0, lim), st.sampled_from([0, 1, 2, 9, 10, 59, 60, 100, 1000]).filter(lambda x: x <= lim)))
        nd = draw(st.integers(0, maxd))
        count = str(ip)
        if nd:
            count += "." + draw(st.one_of(
                st.text("0123456789", min_size=nd, max_size=nd),
                st.sampled_from(["001", "1", "5", "999", "101", "9", "01", "25"]).map(
                    lambda d: d[:nd].ljust(nd, "0"))))
        return {"k": "off", "count": count, "metric": metric}
    return st.one_of(clock(), clock(), off())
