"""Independent document builders for the five text formats.

They take already-encoded payload strings plus a "spelling plan" for the
structural parts (tag casing, quoting, optional blocks), so that the property
modules decide what the text looks like and what the stamps look like.
"""


def srt_doc(cues, eol="\n", trailing_blank=1, first_index=1, between=None):
    """cues: [(start_text, end_text, [payload lines])]; between: blank lines after each cue"""
    out = []
    for i, (a, b, lines) in enumerate(cues):
        out.append(str(first_index + i))
        out.append(f"{a} --> {b}")
        out.extend(lines)
        out.extend([""] * (between[i % len(between)] if between else 1))
    s = eol.join(out)
    return s + eol * max(0, trailing_blank - 1)


def webvtt_doc(cues, header="WEBVTT", notes=(), eol="\n"):
    """cues: [{"id": str|None, "start": text, "end": text, "settings": str|None,
               "lines": [payload lines]}]; notes: {index_before_cue: text}"""
    out = [header, ""]
    notes = dict(notes)
    for i, c in enumerate(cues):
        if i in notes:
            out.append("NOTE " + notes[i])
            out.append("")
        if c.get("id"):
            out.append(c["id"])
        t = f"{c['start']} --> {c['end']}"
        if c.get("settings"):
            t += " " + c["settings"]
        out.append(t)
        out.extend(c["lines"])
        out.append("")
    return eol.join(out)


def microdvd_doc(cues, fps_header=None, eol="\n"):
    """cues: [(start_frame, end_frame, payload)]"""
    out = []
    if fps_header is not None:
        out.append("{0}{0}" + fps_header)
    for a, b, t in cues:
        out.append("{%d}{%d}%s" % (a, b, t))
    return eol.join(out) + eol


def _attrs(attrs, quote='"'):
    return "".join(f' {k}={quote}{v}{quote}' for k, v in attrs)


def dfxp_doc(divs, tt_lang=None, styles=(), regions=(), tt_attrs=(), indent=True,
             xml_decl=True, body_attrs=()):
    """divs: [{"lang": str|None, "attrs": [(k,v)], "ps": [{"attrs": [(k, v)], "inner": xml}]}]
    styles/regions: [[(k, v), ...]] attribute lists of <style>/<region> elements."""
    nl = "\n" if indent else ""
    ind = (lambda n: " " * n) if indent else (lambda n: "")
    out = []
    if xml_decl:
        out.append('<?xml version="1.0" encoding="utf-8"?>' + nl)
    ta = [("xmlns", "http://www.w3.org/ns/ttml"),
          ("xmlns:tts", "http://www.w3.org/ns/ttml#styling")]
    if tt_lang is not None:
        ta.append(("xml:lang", tt_lang))
    ta += list(tt_attrs)
    out.append(f"<tt{_attrs(ta)}>{nl}")
    out.append(f"{ind(1)}<head>{nl}")
    out.append(f"{ind(2)}<styling>{nl}")
    for s in styles:
        out.append(f"{ind(3)}<style{_attrs(s)}/>{nl}")
    out.append(f"{ind(2)}</styling>{nl}")
    out.append(f"{ind(2)}<layout>{nl}")
    for r in regions:
        out.append(f"{ind(3)}<region{_attrs(r)}/>{nl}")
    out.append(f"{ind(2)}</layout>{nl}")
    out.append(f"{ind(1)}</head>{nl}")
    out.append(f"{ind(1)}<body{_attrs(body_attrs)}>{nl}")
    for d in divs:
        da = list(d.get("attrs", ()))
        if d.get("lang") is not None:
            da = [("xml:lang", d["lang"])] + da
        out.append(f"{ind(2)}<div{_attrs(da)}>{nl}")
        for p in d["ps"]:
            out.append(f"{ind(3)}<p{_attrs(p['attrs'])}>{p['inner']}</p>{nl}")
        out.append(f"{ind(2)}</div>{nl}")
    out.append(f"{ind(1)}</body>{nl}")
    out.append(f"</tt>{nl}")
    return "".join(out)


def sami_doc(syncs, classes, upper=False, quote='"', title=None, close_p=True, close_sync=True,
             extra_css=""):
    """syncs: [(start_text, [{"cls": class|None, "lang": lang-attr|None, "inner": html,
                              "attrs": [(k, v)]}])]
    classes: [(class_name, lang_code, [(css-prop, value)])]"""
    T = (lambda s: s.upper()) if upper else (lambda s: s)
    out = [f"<{T('sami')}>", f"<{T('head')}>"]
    if title:
        out.append(f"<{T('title')}>{title}</{T('title')}>")
    out.append(f'<{T("style")} {T("type")}="text/css">')
    out.append("<!--")
    out.append("P { font-family: Arial; }")
    for name, lang, props in classes:
        body = f" lang: {lang};" if lang else ""
        for k, v in props:
            body += f" {k}: {v};"
        out.append(f".{name} {{{body} }}")
    if extra_css:
        out.append(extra_css)
    out.append("-->")
    out.append(f"</{T('style')}>")
    out.append(f"</{T('head')}>")
    out.append(f"<{T('body')}>")
    for start, ps in syncs:
        out.append(f"<{T('sync')} {T('start')}={quote}{start}{quote}>")
        for p in ps:
            a = []
            if p.get("cls") is not None:
                a.append((T("class"), p["cls"]))
            if p.get("lang") is not None:
                a.append((T("lang"), p["lang"]))
            a += list(p.get("attrs", ()))
            out.append(f"<{T('p')}{_attrs(a, quote or '')}>{p['inner']}" + (f"</{T('p')}>" if close_p else ""))
        if close_sync:
            out.append(f"</{T('sync')}>")
    out.append(f"</{T('body')}>")
    out.append(f"</{T('sami')}>")
    return "\n".join(out) + "\n"
