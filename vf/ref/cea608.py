"""Independent CEA-608 reference: byte tables computed from the bit layout of the standard,
an SCC program builder, a grid-based pop-on decoder and the transmission clock.

Nothing here is copied from pycaption/scc/constants.py.
"""
from fractions import Fraction

# ------------------------------------------------------------------ bytes


def parity(b):
    """7-bit value -> byte with odd parity in bit 7."""
    b &= 0x7F
    return b | (0x80 if bin(b).count("1") % 2 == 0 else 0)


def word(b1, b2):
    return "%02x%02x" % (parity(b1), parity(b2))


BASIC = {}
for _c in range(0x20, 0x7F):
    BASIC[_c] = chr(_c)
BASIC.update({0x2A: "á", 0x5C: "é", 0x5E: "í", 0x5F: "ó",
              0x60: "ú", 0x7B: "ç", 0x7C: "÷", 0x7D: "Ñ", 0x7E: "ñ"})
BASIC_CODE = {ch: "%02x" % parity(c) for c, ch in BASIC.items()}

SPECIAL_GLYPHS = ["®", "°", "½", "¿", "™", "¢", "£", "♪", "à",
                  " ", "è", "â", "ê", "î", "ô", "û"]
SPECIAL = {word(0x11, 0x30 + i): g for i, g in enumerate(SPECIAL_GLYPHS)}

_EXT12 = ["Á", "É", "Ó", "Ú", "Ü", "ü", "‘", "¡", "*", "’",
          "—", "©", "℠", "•", "“", "”", "À", "Â", "Ç", "È",
          "Ê", "Ë", "ë", "Î", "Ï", "ï", "Ô", "Ù", "ù", "Û",
          "«", "»"]
_EXT13 = ["Ã", "ã", "Í", "Ì", "ì", "Ò", "ò", "Õ", "õ", "{", "}", "\\", "^", "_",
          "¦", "~", "Ä", "ä", "Ö", "ö", "ß", "¥", "¤", "|", "Å", "å",
          "Ø", "ø", "┌", "┐", "└", "┘"]
EXTENDED = {}
for _i, _g in enumerate(_EXT12):
    EXTENDED[word(0x12, 0x20 + _i)] = _g
for _i, _g in enumerate(_EXT13):
    EXTENDED[word(0x13, 0x20 + _i)] = _g

# glyphs for which Unicode offers several equally good renderings of the standard's drawing
GLYPH_CLASSES = [{"'", "’", "ʼ"}, {"—", "━", "-"}, {"¦", "|"}, {"‘", "`"}]


def same_glyph(a, b):
    return a == b or any(a in c and b in c for c in GLYPH_CLASSES)


# PAC: first byte by row, second-row bit, indent / style field, underline bit
_PAC_ROW_BYTE = {1: 0x11, 2: 0x11, 3: 0x12, 4: 0x12, 5: 0x15, 6: 0x15, 7: 0x16, 8: 0x16,
                 9: 0x17, 10: 0x17, 11: 0x10, 12: 0x13, 13: 0x13, 14: 0x14, 15: 0x14}
_PAC_SECOND_ROW = {2, 4, 6, 8, 10, 13, 15}


def pac(row, indent=0, italic=False, underline=False, color=None):
    """PAC word for row 1..15.  indent in {0,4,...,28} (white), or color index 0..6, or italic."""
    b1 = _PAC_ROW_BYTE[row]
    base = 0x60 if row in _PAC_SECOND_ROW else 0x40
    if italic:
        field = 7
    elif color is not None:
        field = color
    else:
        field = 8 + indent // 4
    return word(b1, base + (field << 1) + (1 if underline else 0))


def all_pacs():
    """[(word, row, col, italic)] for the 15 x 32 PAC words of channel 1."""
    out = []
    for row in range(1, 16):
        for field in range(16):
            for ul in (0, 1):
                b1 = _PAC_ROW_BYTE[row]
                base = 0x60 if row in _PAC_SECOND_ROW else 0x40
                w = word(b1, base + (field << 1) + ul)
                col = (field - 8) * 4 if field >= 8 else 0
                out.append((w, row, col, field == 7))
    return out


def midrow(italic=False, underline=False, color=0):
    field = 7 if italic else color
    return word(0x11, 0x20 + (field << 1) + (1 if underline else 0))


def tab(n):
    return word(0x17, 0x20 + n)


MISC = {name: word(0x14, 0x20 + i) for i, name in enumerate(
    ["RCL", "BS", "AOF", "AON", "DER", "RU2", "RU3", "RU4", "FON", "RDC", "TR", "RTD", "EDM", "CR",
     "ENM", "EOC"])}

FRAME_DROP = Fraction(10 ** 6, 30)            # ';' timecode: wall-clock frames
FRAME_NONDROP = Fraction(1001 * 10 ** 6, 30000)   # ':' timecode runs 1001/1000 slower


def timecode(frames, drop):
    f = frames % 30
    s = frames // 30
    return "%02d:%02d:%02d%s%02d" % (s // 3600, (s // 60) % 60, s % 60, ";" if drop else ":", f)


def char_words(text):
    """Encode basic-set text as full words (pairs; odd tail padded with a null byte)."""
    codes = [BASIC_CODE[ch] for ch in text]
    out = []
    for i in range(0, len(codes), 2):
        if i + 1 < len(codes):
            out.append(codes[i] + codes[i + 1])
        else:
            out.append(codes[i] + "80")
    return out


# ------------------------------------------------------------------ decoder

class Screen:
    """15 x 32 grid of cells: absent | (char, italic, kind); kind in char / space (a transmitted
    space) / mid (the cell a mid-row code occupies) / gap (never written)."""

    def __init__(self):
        self.cells = {}

    def clear(self):
        self.cells = {}

    def put(self, row, col, ch, italic, kind="char"):
        self.cells[(row, col)] = (ch, italic, kind)

    def erase(self, row, col):
        self.cells.pop((row, col), None)

    def rows(self):
        """{row: (first_col, [(char, italic) ...])} with gaps filled by transparent spaces."""
        out = {}
        for (r, c), v in self.cells.items():
            out.setdefault(r, {})[c] = v
        res = {}
        for r, cols in out.items():
            ks = sorted(cols)
            visible = [k for k in ks if not cols[k][0].isspace()]
            if not visible:
                continue
            lo, hi = ks[0], ks[-1]
            res[r] = (lo, [cols.get(c, (" ", False, "gap")) for c in range(lo, hi + 1)])
        return res

    def captions(self):
        """Groups of vertically adjacent non-empty rows: [{"row", "col", "lines": [[(ch, it)]]}]"""
        rows = self.rows()
        groups = []
        for r in sorted(rows):
            if groups and groups[-1]["last"] == r - 1:
                groups[-1]["lines"].append(rows[r][1])
                groups[-1]["last"] = r
            else:
                groups.append({"row": r, "col": rows[r][0], "lines": [rows[r][1]], "last": r})
        return groups


class Decoder:
    """Pop-on decoder.  feed(words-with-times) -> list of displayed captions with times."""

    def __init__(self):
        self.front = Screen()
        self.back = Screen()
        self.row, self.col = 15, 0
        self.italic = False
        self.last_ctrl = None
        self.shown = []          # [{"start", "end", "groups"}]
        self.current = None

    def _write(self, ch, italic=None, kind=None):
        if kind is None:
            kind = "space" if ch == " " else "char"
        self.back.put(self.row, min(self.col, 31), ch, self.italic if italic is None else italic, kind)
        if self.col < 32:
            self.col += 1

    def _backspace(self):
        if self.col > 0:
            self.col -= 1
            self.back.erase(self.row, self.col)

    def feed(self, w, t):
        """w: 4-hex-digit word; t: Fraction microseconds at which it is transmitted."""
        b1, b2 = int(w[:2], 16) & 0x7F, int(w[2:], 16) & 0x7F
        is_ctrl = 0x10 <= b1 <= 0x1F
        if is_ctrl:
            if self.last_ctrl == w:
                self.last_ctrl = None      # second transmission of a doubled code: ignored
                return
            self.last_ctrl = w
        else:
            self.last_ctrl = None
        if not is_ctrl:
            for b in (b1, b2):
                if b in BASIC:
                    self._write(BASIC[b])
            return
        if b1 == 0x14 and 0x20 <= b2 <= 0x2F:
            name = [k for k, v in MISC.items() if v == w][0]
            if name == "ENM":
                self.back.clear()
            elif name == "EDM":
                self._end_current(t)
                self.front.clear()
            elif name == "EOC":
                self._end_current(t)
                self.front, self.back = self.back, self.front
                groups = self.front.captions()
                if groups:
                    self.current = {"start": t, "end": None, "groups": groups}
                    self.shown.append(self.current)
            elif name == "BS":
                self._backspace()
            elif name == "DER":
                for c in range(self.col, 32):
                    self.back.erase(self.row, c)
            return
        if b1 == 0x17 and 0x21 <= b2 <= 0x23:
            self.col = min(31, self.col + (b2 - 0x20))
            return
        if b1 == 0x11 and 0x20 <= b2 <= 0x2F:
            field = (b2 - 0x20) >> 1
            self.italic = field == 7
            self._write(" ", italic=False, kind="mid")
            return
        if b1 == 0x11 and 0x30 <= b2 <= 0x3F:
            self._write(SPECIAL_GLYPHS[b2 - 0x30])
            return
        if b1 in (0x12, 0x13) and 0x20 <= b2 <= 0x3F:
            self._backspace()
            self._write((_EXT12 if b1 == 0x12 else _EXT13)[b2 - 0x20])
            return
        if b2 >= 0x40 and b1 in _PAC_ROW_BYTE.values():
            rows = sorted(r for r, b in _PAC_ROW_BYTE.items() if b == b1)
            second = b2 >= 0x60
            if b1 == 0x10:
                row = 11
            else:
                row = rows[1] if second else rows[0]
            field = ((b2 - (0x60 if second else 0x40)) >> 1) & 0xF
            self.row = row
            self.col = (field - 8) * 4 if field >= 8 else 0
            self.italic = field == 7
            return

    def _end_current(self, t):
        if self.current is not None and self.current["end"] is None:
            self.current["end"] = t
        self.current = None


def parse_scc_lines(doc):
    """[(frames, drop, [words])] of an SCC document (reference reading of the container)."""
    out = []
    for ln in doc.splitlines()[1:]:
        ln = ln.strip()
        if not ln:
            continue
        tc, _, rest = ln.partition("\t")
        drop = ";" in tc
        h, m, s, f = (int(x) for x in tc.replace(";", ":").split(":"))
        out.append(((h * 3600 + m * 60 + s) * 30 + f, drop, rest.split()))
    return out


def decode_popon(lines):
    """lines: [(frames, drop, [words])].  Returns Decoder.shown with exact Fraction times."""
    d = Decoder()
    for frames, drop, words in lines:
        unit = FRAME_DROP if drop else FRAME_NONDROP
        for i, w in enumerate(words):
            d.feed(w, (frames + i) * unit)
    return d.shown
