"""Abstract pop-on SCC programs (JSON) -> SCC documents, and the comparison of what
pycaption's SCCReader returns with what the reference decoder (vf.ref.cea608) displays."""
from fractions import Fraction

from hypothesis import strategies as st

from . import cea608 as R

HEADER = "Scenarist_SCC V1.0"

# program := {"drop": bool, "double": "none"|"all"|"random", "captions": [caption...]}
# caption := {"gap": frames since previous line end, "enm": bool, "rows": [row...],
#             "edm": "inline"|"line"|"none", "eoc_line": bool, "hold": frames displayed,
#             "clear": bool, "dbl": [bool...]}
# row     := {"row": 1..15, "indent": 0..28 step 4, "pit": bool (italic PAC), "ul": bool,
#             "color": None|0..6, "to": 0..3, "items": [item...]}
# item    := ["c", "ab"] | ["c1", "a"] | ["sp", i] | ["ex", 0x12|0x13, i, "E"|None]
#          | ["mid", italic, underline, color] | ["bs"] | ["nul"]


def _ctrl(words, unit, plan, dbl_iter):
    """Append a control unit (list of words), doubled according to the plan."""
    if plan == "all" or (plan == "random" and next(dbl_iter, False)):
        words.extend(unit + unit)
    else:
        words.extend(unit)


def build_lines(prog):
    """-> [(frames, [words])]; lines never overlap in time."""
    lines = []
    t = 0
    plan = prog["double"]
    for cap in prog["captions"]:
        dbl = iter(cap.get("dbl", []))
        t += cap["gap"]
        w = []
        if cap["enm"]:
            _ctrl(w, [R.MISC["ENM"]], plan, dbl)
        _ctrl(w, [R.MISC["RCL"]], plan, dbl)
        for row in cap["rows"]:
            unit = [R.pac(row["row"], row["indent"], italic=row["pit"], underline=row["ul"],
                          color=row.get("color"))]
            if row["to"]:
                unit.append(R.tab(row["to"]))
            _ctrl(w, unit, plan, dbl)
            for it in row["items"]:
                k = it[0]
                if k == "c":
                    w.append(R.BASIC_CODE[it[1][0]] + R.BASIC_CODE[it[1][1]])
                elif k == "c1":
                    w.append(R.BASIC_CODE[it[1]] + "80")
                elif k == "nul":
                    w.append("8080")
                elif k == "sp":
                    _ctrl(w, [R.word(0x11, 0x30 + it[1])], plan, dbl)
                elif k == "ex":
                    if it[3]:
                        w.append(R.BASIC_CODE[it[3]] + "80")
                    unit = [R.word(it[1], 0x20 + it[2])]
                    if plan == "all":
                        w.extend(unit + unit)
                    else:
                        w.extend(unit)
                elif k == "mid":
                    _ctrl(w, [R.midrow(it[1], it[2], it[3])], plan, dbl)
                elif k == "bs":
                    unit = [R.MISC["BS"]]
                    if plan == "all":
                        w.extend(unit + unit)
                    else:
                        w.extend(unit)
        tail = []
        if cap["edm"] == "inline":
            _ctrl(tail, [R.MISC["EDM"]], plan, dbl)
        eoc = []
        _ctrl(eoc, [R.MISC["EOC"]], plan, dbl)
        if cap["eoc_line"]:
            lines.append((t, w + tail))
            t += len(w + tail) + cap.get("eoc_gap", 2)
            lines.append((t, eoc))
            t += len(eoc)
        else:
            lines.append((t, w + tail + eoc))
            t += len(w + tail + eoc)
        if cap["clear"]:
            t += cap["hold"]
            c = []
            if cap.get("clear_by") == "eoc" and plan == "none":
                # taken off the screen by a second End-Of-Caption (swaps in the empty memory),
                # sent after some null padding; the next load must erase non-displayed memory
                c = ["8080"] * cap.get("pad", 1) + [R.MISC["EOC"]]
            else:
                _ctrl(c, [R.MISC["EDM"]], plan, dbl)
            lines.append((t, c))
            t += len(c)
        else:
            t += cap["hold"]
    lines += trailing_load(prog, t)
    return apply_cuts(lines, prog.get("cuts"))


def trailing_load(prog, t):
    """A further caption that is still being loaded when the stream ends (RCL, PAC, text, no
    End-Of-Caption): never displayed."""
    tr = prog.get("trailing")
    if not tr:
        return []
    w = [R.MISC["RCL"]] * (2 if prog["double"] == "all" else 1)
    w += [R.pac(tr["row"], 0)] * (2 if prog["double"] == "all" else 1)
    w += R.char_words(tr["text"])
    return [(t + tr["gap"], w)]


def trailing_strategy():
    return st.one_of(st.none(), st.none(), st.none(), st.fixed_dictionaries({
        "row": st.integers(1, 15), "text": st.sampled_from(["NEXT", "to be continued", "x"]),
        "gap": st.integers(1, 60)}))


def apply_cuts(lines, cuts):
    """Spread a line over two frame-contiguous lines (the same word stream, another layout of the
    file): cuts = [[line index, word index], ...], both taken modulo what exists."""
    lines = list(lines)
    for li, pos in cuts or []:
        i = li % len(lines)
        t, w = lines[i][0], lines[i][1]
        if len(w) >= 2:
            k = 1 + pos % (len(w) - 1)
            lines[i:i + 1] = [(t, w[:k]) + tuple(lines[i][2:]), (t + k, w[k:]) + tuple(lines[i][2:])]
    return lines


def fmt_line(tc, words, spacing=None):
    """One SCC line: timecode, separator, code words, tail - in the lexical variant `spacing`."""
    sp = spacing or {}
    gaps = sp.get("gaps") or [1]
    body = ""
    for i, w in enumerate(words):
        if i:
            body += " " * gaps[(i - 1) % len(gaps)]
        body += w
    return tc + sp.get("tc", "\t") + body + sp.get("tail", "")


def _line_drop(prog, line):
    return line[2] if len(line) > 2 else prog["drop"]


def to_scc(prog, lines=None, start=30 * 3600):
    """prog["spacing"] (optional) = {"tc": separator after the timecode, "gaps": [n blanks
    between code words, cycled], "tail": what follows the last word of a line}."""
    lines = lines if lines is not None else build_lines(prog)
    out = [HEADER, ""]
    for line in lines:
        out.append(fmt_line(R.timecode(start + line[0], _line_drop(prog, line)), line[1], prog.get("spacing")))
        out.append("")
    return "\n".join(out)


def reference(prog, lines=None, start=30 * 3600):
    lines = lines if lines is not None else build_lines(prog)
    return R.decode_popon([(start + l[0], _line_drop(prog, l), l[1]) for l in lines])


def spacing_strategy():
    """Lexical variants of a line that the reader is observed to accept: blanks instead of the
    tab after the timecode, more than one blank between code words, blanks / a tab after the
    last word."""
    return st.one_of(st.none(), st.none(), st.fixed_dictionaries({
        "tc": st.sampled_from(["\t", "\t", " ", "\t ", "  "]),
        "gaps": st.lists(st.sampled_from([1, 1, 1, 2, 3]), min_size=1, max_size=7),
        "tail": st.sampled_from(["", "", " ", "\t", " \t", "  "])}))


def cuts_strategy():
    return st.one_of(st.just([]), st.just([]),
                     st.lists(st.tuples(st.integers(0, 9), st.integers(0, 60)).map(list), min_size=1, max_size=3))


# ------------------------------------------------------------------ strategies

LETTERS = "abcdefghijklmnopqrstuvwxyzABCDEFGHIJKLMNOPQRSTUVWXYZ0123456789.,!?'-&"
STANDIN = {"É": "E", "Á": "A", "Ó": "O", "Ü": "U",
           "ü": "u", "À": "A", "Ç": "C", "ë": "e"}


def item_strategy():
    ch = st.sampled_from(LETTERS)
    anyb = st.sampled_from(sorted(R.BASIC_CODE))
    return st.one_of(
        st.tuples(st.just("c"), st.tuples(ch, ch).map("".join)).map(list),
        st.tuples(st.just("c"), st.tuples(ch, st.just(" ")).map("".join)).map(list),
        st.tuples(st.just("c"), st.tuples(st.just(" "), ch).map("".join)).map(list),
        st.tuples(st.just("c"), st.tuples(anyb, anyb).map("".join)).map(list),
        st.tuples(st.just("c1"), ch).map(list),
        st.tuples(st.just("sp"), st.integers(0, 15)).map(list),
        st.tuples(st.just("ex"), st.sampled_from([0x12, 0x13]), st.integers(0, 31),
                  st.sampled_from(["E", "A", "o", "c"])).map(list),
        # extended character whose "stand-in" is whatever was sent before it (a special
        # character, a space, any basic character): the decoder backspaces over it all the same
        st.tuples(st.just("ex"), st.sampled_from([0x12, 0x13]), st.integers(0, 31), st.none()).map(list),
        st.tuples(st.just("mid"), st.booleans(), st.booleans(), st.integers(0, 6)).map(list),
        st.tuples(st.just("mid"), st.just(True), st.just(False), st.just(0)).map(list),
        st.just(["bs"]),
    )


def _item_width(it):
    return {"c": 2, "c1": 1, "sp": 1, "ex": 1, "mid": 1, "bs": -1, "nul": 0}[it[0]]


def _row_visible(items):
    """does the row still show a visible character after backspaces / replacements?"""
    cells = []
    prev = None
    for it in items:
        k = it[0]
        if k in ("sp", "mid") and it == prev:
            continue        # the same control code twice in a row is one (doubled) code
        prev = it
        if k == "c":
            cells += list(it[1])
        elif k == "c1":
            cells.append(it[1])
        elif k == "sp":
            cells.append(" " if it[1] == 9 else "x")
        elif k == "ex":
            if it[3]:
                cells.append(it[3])
            if cells:
                cells.pop()
            cells.append("x")
        elif k == "mid":
            cells.append(" ")
        elif k == "bs" and cells:
            cells.pop()
    return any(not c.isspace() for c in cells)


def row_strategy(row):
    @st.composite
    def build(draw):
        indent = draw(st.sampled_from(range(0, 32, 4)))
        pit = draw(st.integers(0, 4)) == 0
        color = None
        if not pit and draw(st.integers(0, 5)) == 0:
            color = draw(st.integers(0, 6))
        if pit or color is not None:
            indent = 0
        to = draw(st.sampled_from([0, 0, 1, 2, 3]))
        col = indent + to
        items = []
        n = draw(st.integers(1, 10))
        width = 0
        visible = 0
        for _ in range(n):
            it = draw(item_strategy())
            if it[0] == "bs" and (width <= 0 or not items or items[-1][0] not in ("c", "c1", "sp", "ex")):
                # backspace is generated directly after a character it erases
                # (two identical control codes in a row are one doubled code, not two actions)
                continue
            if it[0] == "ex" and it[3] is None and (not items or items[-1][0] not in ("c", "c1", "sp")):
                continue
            wd = _item_width(it) + (1 if it[0] == "ex" and it[3] else 0)
            if col + width + max(wd, 1) > 32:
                break
            items.append(it)
            width += _item_width(it)
        if not _row_visible(items):
            if col + width + 2 > 32:
                indent, to, col = 0, 0, 0
                if pit or color is not None:
                    indent = 0
            items.append(["c", "ok"])
        return {"row": row, "indent": indent, "pit": pit, "ul": draw(st.booleans()),
                "color": color, "to": to, "items": items}
    return build()


def caption_strategy(first):
    @st.composite
    def build(draw):
        nrows = draw(st.integers(1, 4))
        rows_idx = sorted(draw(st.lists(st.integers(1, 15), min_size=nrows, max_size=nrows, unique=True)))
        if draw(st.booleans()):
            # consecutive rows (one multi-line caption)
            top = draw(st.integers(1, 16 - nrows))
            rows_idx = list(range(top, top + nrows))
        rows = [draw(row_strategy(r)) for r in rows_idx]
        if nrows >= 2 and draw(st.integers(0, 5)) == 0:
            # rows that repeat one another: the same text again, or the same text followed by a
            # mid-row code and more text (a refrain, "la" / "la la")
            import copy
            base = draw(st.sampled_from([[["c", "la"]], [["c", "no"], ["c", "w "]], [["c", "ab"], ["c", "cd"]]]))
            i, j = 0, draw(st.integers(1, nrows - 1))
            for k in (i, j):
                rows[k].update(indent=0, to=0, pit=False, color=None)
            rows[i]["items"] = copy.deepcopy(base)
            tail = draw(st.sampled_from([[], [["mid", True, False, 0], ["c", "x "]], [["mid", False, False, 0], ["c", "yz"]],
                                         [["c", " x"]]]))
            rows[j]["items"] = copy.deepcopy(base) + copy.deepcopy(tail)
        return {"gap": draw(st.integers(0 if first else 8, 60)), "enm": draw(st.booleans()),
                "rows": rows, "edm": draw(st.sampled_from(["none", "none", "inline"])),
                "eoc_line": draw(st.integers(0, 3)) == 0, "eoc_gap": draw(st.integers(1, 10)),
                "hold": draw(st.integers(40, 150)), "clear": draw(st.booleans()),
                "dbl": draw(st.lists(st.booleans(), min_size=40, max_size=40))}
    return build()


def program_strategy(max_captions=4):
    @st.composite
    def build(draw):
        n = draw(st.integers(1, max_captions))
        caps = [draw(caption_strategy(i == 0)) for i in range(n)]
        # End-Of-Caption swaps the two memories: unless the caption displayed before the
        # previous one was erased (EDM), non-displayed memory still holds it and a well-formed
        # stream erases it (ENM) before loading
        for k in range(2, n):
            if not (caps[k - 2]["clear"] or caps[k - 1]["edm"] == "inline"):
                caps[k]["enm"] = True
        return {"drop": draw(st.booleans()), "double": draw(st.sampled_from(["none", "all", "random"])),
                "captions": caps, "cuts": draw(cuts_strategy()), "spacing": draw(spacing_strategy()),
                "trailing": draw(trailing_strategy())}
    return build()


# ------------------------------------------------------------------ reader objects with a past

REUSE_KINDS = [None, None, None, "ok", "flash", "badtime", "same"]


def reuse_strategy():
    """How the SCCReader object was used before the read under test:
    None (fresh) | ["ok", row] (read a pop-on document whose last row is `row`) | ["flash"]
    (a document rejected with a timing error) | ["badtime"] (rejected for a malformed timecode
    after a caption was stored) | ["same"] (the very same document, read once before)."""
    return st.one_of(st.none(), st.none(), st.none(),
                     st.tuples(st.just("ok"), st.integers(1, 14)).map(list),
                     st.just(["flash"]), st.just(["badtime"]), st.just(["same"]))


def used_reader(reuse, doc=None):
    """An SCCReader that may already have read another document (outcome ignored)."""
    from pycaption import SCCReader
    r = SCCReader()
    if not reuse:
        return r
    kind = reuse[0]
    if kind == "ok":
        row = reuse[1]
        prev = "\n".join([HEADER, "",
                          "00:00:01:00\t94ae 94ae 9420 9420 " + R.pac(row, 4) + " " + R.pac(row, 4)
                          + " 4c45 4654 204f 5645 d280 942f 942f", "", "00:00:03:00\t942c 942c", ""])
    elif kind == "flash":
        prev = "\n".join([HEADER, "", "00:00:01:00\t9420 9470 4c45 4654 204f 5645 d280 942f 942c", ""])
    elif kind == "badtime":
        prev = "\n".join([HEADER, "", "00:00:01:00\t9420 9470 4c45 4654 204f 5645 d280 942f", "",
                          "00:00:03:00\t942c", "", "00:00:04\t9420 9470 4f4e 4580 942f", ""])
    elif kind == "same":
        prev = doc
    else:
        return r
    try:
        r.read(prev)
    except Exception:  # noqa  (the earlier document is not what is being judged)
        pass
    return r
