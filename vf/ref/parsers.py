"""Independent parsers of the five text formats (share no code with pycaption).

Each parser is strict about the structure of its format and raises RefParseError
when the document is not well-formed; they are the "conformant consumers" the
properties speak about.  Times are integer microseconds computed with ints.
"""
import html
import re
from html.parser import HTMLParser

from lxml import etree


class RefParseError(Exception):
    pass


# ------------------------------------------------------------------ SRT

_SRT_TIME = re.compile(r"^(\d{2,}):([0-5]\d):([0-5]\d),(\d{3})$")


def _srt_time(tok):
    m = _SRT_TIME.match(tok)
    if not m:
        raise RefParseError(f"bad SRT timestamp {tok!r}")
    h, mi, s, ms = (int(x) for x in m.groups())
    return ((h * 60 + mi) * 60 + s) * 1000000 + ms * 1000


def parse_srt(text):
    """[{index, start, end, lines}] ; blocks separated by blank lines."""
    if "\r" in text:
        text = text.replace("\r\n", "\n").replace("\r", "\n")
    lines = text.split("\n")
    i = 0
    n = len(lines)
    cues = []
    while i < n:
        while i < n and lines[i].strip() == "":
            i += 1
        if i >= n:
            break
        idx = lines[i].strip()
        if not re.fullmatch(r"\d+", idx):
            raise RefParseError(f"expected cue number, got {lines[i]!r}")
        i += 1
        if i >= n:
            raise RefParseError("cue number without timing line")
        parts = lines[i].split(" --> ")
        if len(parts) != 2:
            raise RefParseError(f"bad timing line {lines[i]!r}")
        start, end = _srt_time(parts[0].strip()), _srt_time(parts[1].strip())
        i += 1
        body = []
        while i < n and lines[i].strip() != "":
            body.append(lines[i])
            i += 1
        cues.append({"index": int(idx), "start": start, "end": end, "lines": body,
                     "raw": parts})
    return cues


# ------------------------------------------------------------------ MicroDVD

_MDVD = re.compile(r"^\{(\d+)\}\{(\d+)\}(.*)$")


def parse_microdvd(text, default_fps=25):
    """[{start_frame, end_frame, lines}] ; one cue per non-empty line."""
    cues = []
    fps = None
    for ln in text.split("\n"):
        if ln == "":
            continue
        m = _MDVD.match(ln)
        if not m:
            raise RefParseError(f"not a MicroDVD line: {ln!r}")
        a, b, t = int(m.group(1)), int(m.group(2)), m.group(3)
        if a == 0 and b == 0 and not cues and fps is None and re.fullmatch(
                r"\s*\d+(\.\d+)?\s*", t):
            fps = t            # {0}{0}<number> declares the frame rate
            continue
        cues.append({"start_frame": a, "end_frame": b, "lines": t.split("|")})
    return cues


# ------------------------------------------------------------------ WebVTT

_VTT_TIME = re.compile(r"^(?:(\d{2,}):)?([0-5]\d):([0-5]\d)\.(\d{3})$")


def _vtt_time(tok):
    m = _VTT_TIME.match(tok)
    if not m:
        raise RefParseError(f"bad WebVTT timestamp {tok!r}")
    h = int(m.group(1) or 0)
    return ((h * 60 + int(m.group(2))) * 60 + int(m.group(3))) * 1000000 + int(m.group(4)) * 1000


def parse_webvtt(text):
    """[{id, start, end, settings(str), settings_map, lines(raw payload lines)}]"""
    text = text.replace("\r\n", "\n").replace("\r", "\n")
    lines = text.split("\n")
    if not lines or not re.match(r"^WEBVTT($|[ \t])", lines[0]):
        raise RefParseError("missing WEBVTT signature")
    i = 1
    n = len(lines)
    # header block until blank line
    while i < n and lines[i] != "":
        if "-->" in lines[i]:
            raise RefParseError("timing line in header")
        i += 1
    cues = []
    while i < n:
        while i < n and lines[i] == "":
            i += 1
        if i >= n:
            break
        if lines[i].startswith("NOTE") and (len(lines[i]) == 4 or lines[i][4] in " \t"):
            while i < n and lines[i] != "":
                if "-->" in lines[i]:
                    raise RefParseError("'-->' inside NOTE block")
                i += 1
            continue
        cue_id = None
        if "-->" not in lines[i]:
            cue_id = lines[i]
            i += 1
            if i >= n or "-->" not in lines[i]:
                raise RefParseError(f"block without timing line after {cue_id!r}")
        m = re.match(r"^(\S+)[ \t]+-->[ \t]+(\S+)(?:[ \t]+(.*))?$", lines[i])
        if not m:
            raise RefParseError(f"bad timing line {lines[i]!r}")
        start, end = _vtt_time(m.group(1)), _vtt_time(m.group(2))
        settings = (m.group(3) or "").strip()
        smap = {}
        for tok in settings.split():
            if ":" not in tok:
                raise RefParseError(f"bad cue setting {tok!r}")
            k, v = tok.split(":", 1)
            if not k or not v:
                raise RefParseError(f"bad cue setting {tok!r}")
            smap[k] = v
        i += 1
        body = []
        while i < n and lines[i] != "":
            if "-->" in lines[i]:
                # WebVTT cue text loop: a line containing "-->" ends the cue; if it is a timing
                # line, the next cue starts right here (no blank line needed)
                m2 = re.match(r"^(\S+)[ \t]+-->[ \t]+(\S+)(?:[ \t]+(.*))?$", lines[i])
                try:
                    ok2 = bool(m2) and _vtt_time(m2.group(1)) is not None and _vtt_time(m2.group(2)) is not None
                except RefParseError:
                    ok2 = False
                if ok2:
                    break
                raise RefParseError(f"'-->' inside cue payload: {lines[i]!r}")
            body.append(lines[i])
            i += 1
        cues.append({"id": cue_id, "start": start, "end": end, "settings": settings,
                     "settings_map": smap, "lines": body, "raw": (m.group(1), m.group(2))})
    return cues


_VTT_ENT = {"amp": "&", "lt": "<", "gt": ">", "lrm": "‎", "rlm": "‏", "nbsp": " "}


def vtt_cue_text_tokens(payload):
    """Tokenise WebVTT cue text.  Yields ("text", str) | ("start", name, classes, annotation)
    | ("end", name) | ("ts", str).  A '<' that does not start a tag is a parse error."""
    out = []
    i = 0
    n = len(payload)
    buf = []
    while i < n:
        ch = payload[i]
        if ch == "&":
            m = re.match(r"&([a-zA-Z]+);", payload[i:])
            if m and m.group(1) in _VTT_ENT:
                buf.append(_VTT_ENT[m.group(1)])
                i += len(m.group(0))
            else:
                buf.append("&")
                i += 1
        elif ch == "<":
            j = payload.find(">", i)
            if j < 0:
                raise RefParseError("unterminated tag in cue text")
            if buf:
                out.append(("text", "".join(buf)))
                buf = []
            inner = payload[i + 1:j]
            if inner.startswith("/"):
                out.append(("end", inner[1:]))
            elif re.fullmatch(r"(?:\d{2,}:)?[0-5]\d:[0-5]\d\.\d{3}", inner):
                out.append(("ts", inner))
            else:
                m = re.match(r"^([A-Za-z0-9]*)((?:\.[^\s.<>]+)*)(?:[ \t\n](.*))?$", inner, re.S)
                if not m:
                    raise RefParseError(f"malformed tag <{inner}>")
                out.append(("start", m.group(1), [c for c in m.group(2).split(".") if c],
                            m.group(3)))
            i = j + 1
        else:
            buf.append(ch)
            i += 1
    if buf:
        out.append(("text", "".join(buf)))
    return out


def vtt_payload_lines(body_lines):
    """Displayed text per payload line (tags dropped, entities decoded)."""
    res = []
    for ln in body_lines:
        toks = vtt_cue_text_tokens(ln)
        res.append("".join(t[1] for t in toks if t[0] == "text"))
    return res


def vtt_styled_chars(body_lines):
    """[(char, frozenset of open tag names)] over the whole payload ('\\n' between lines);
    raises RefParseError when i/b/u tags are not properly nested."""
    stack = []
    out = []
    for li, ln in enumerate(body_lines):
        if li:
            out.append(("\n", frozenset(stack)))
        for t in vtt_cue_text_tokens(ln):
            if t[0] == "text":
                for ch in t[1]:
                    out.append((ch, frozenset(stack)))
            elif t[0] == "start":
                stack.append(t[1])
            elif t[0] == "end":
                if not stack or stack[-1] != t[1]:
                    raise RefParseError(f"closing </{t[1]}> does not match open tags {stack}")
                stack.pop()
    if stack:
        raise RefParseError(f"unclosed tags at end of cue: {stack}")
    return out


# ------------------------------------------------------------------ DFXP / TTML

TTML = "http://www.w3.org/ns/ttml"
TTS = "http://www.w3.org/ns/ttml#styling"
XMLNS = "http://www.w3.org/XML/1998/namespace"

_CLOCK = re.compile(r"^(\d{2,}):([0-5]\d):([0-5]\d)(?:\.(\d+))?$")


def ttml_clock_ms_strict(tok):
    """hh:mm:ss.mmm as the writers must print it -> microseconds."""
    m = re.match(r"^(\d{2,}):([0-5]\d):([0-5]\d)\.(\d{3})$", tok)
    if not m:
        raise RefParseError(f"timestamp {tok!r} is not hh:mm:ss.mmm")
    h, mi, s, ms = (int(x) for x in m.groups())
    return ((h * 60 + mi) * 60 + s) * 1000000 + ms * 1000


def _q(ns, name):
    return "{%s}%s" % (ns, name)


def _p_content(p):
    """Walk a <p>: returns (lines, chars) where lines are strings split at <br/> and
    chars is [(char, attrs-of-enclosing-spans list)]; '\\n' marks a <br/>."""
    lines = [""]
    chars = []

    def add_text(t, ctx):
        if not t:
            return
        lines[-1] += t
        for ch in t:
            chars.append((ch, ctx))

    def walk(el, ctx):
        add_text(el.text, ctx)
        for ch in el:
            if not isinstance(ch.tag, str):
                add_text(ch.tail, ctx)
                continue
            if ch.tag == _q(TTML, "br"):
                lines.append("")
                chars.append(("\n", ctx))
            elif ch.tag == _q(TTML, "span"):
                walk(ch, ctx + (dict(ch.attrib),))
            else:
                raise RefParseError(f"unexpected element {ch.tag} in <p>")
            add_text(ch.tail, ctx)
    walk(p, ())
    return lines, chars


def parse_dfxp(text):
    """Strict XML parse.  Returns {lang, styles{id:attrs}, regions{id:attrs},
    region_order, divs:[{lang, region, ps:[{begin,end,region,style,attrs,lines,chars}]}],
    all_ids, refs}"""
    try:
        root = etree.fromstring(text.encode("utf-8"), etree.XMLParser(recover=False, resolve_entities=False, collect_ids=False))
    except etree.XMLSyntaxError as e:
        raise RefParseError(f"not well-formed XML: {e}")
    if root.tag != _q(TTML, "tt"):
        raise RefParseError(f"root element is {root.tag}, not tt in the TTML namespace")
    xmlid = _q(XMLNS, "id")
    xmllang = _q(XMLNS, "lang")
    doc = {"lang": root.get(xmllang), "styles": {}, "regions": {}, "region_order": [],
           "divs": [], "ids": [], "style_refs": [], "region_refs": [], "head_style_count": {},
           "head_region_count": {}}
    head = root.find(_q(TTML, "head"))
    if head is not None:
        for st_ in head.iter(_q(TTML, "style")):
            parent = st_.getparent()
            if parent is not None and parent.tag == _q(TTML, "region"):
                continue
            sid = st_.get(xmlid)
            if sid is not None:
                doc["styles"][sid] = dict(st_.attrib)
                doc["head_style_count"][sid] = doc["head_style_count"].get(sid, 0) + 1
        for rg in head.iter(_q(TTML, "region")):
            rid = rg.get(xmlid)
            if rid is not None:
                doc["regions"][rid] = dict(rg.attrib)
                doc["region_order"].append(rid)
                doc["head_region_count"][rid] = doc["head_region_count"].get(rid, 0) + 1
    for el in root.iter():
        if not isinstance(el.tag, str):
            continue
        if el.get(xmlid) is not None:
            doc["ids"].append(el.get(xmlid))
        if el.tag not in (_q(TTML, "style"),) or True:
            if el.get("style") is not None:
                doc["style_refs"].append(el.get("style"))
            if el.get("region") is not None:
                doc["region_refs"].append(el.get("region"))
    body = root.find(_q(TTML, "body"))
    if body is None:
        raise RefParseError("no body")
    for child in body:
        if not isinstance(child.tag, str):
            continue
        if child.tag != _q(TTML, "div"):
            raise RefParseError(f"unexpected {child.tag} in body")
        d = {"lang": child.get(xmllang), "region": child.get("region"), "ps": []}
        for p in child:
            if not isinstance(p.tag, str):
                continue
            if p.tag != _q(TTML, "p"):
                raise RefParseError(f"unexpected {p.tag} in div")
            lines, chars = _p_content(p)
            d["ps"].append({"begin": p.get("begin"), "end": p.get("end"), "dur": p.get("dur"),
                            "region": p.get("region"), "style": p.get("style"),
                            "attrs": dict(p.attrib), "lines": lines, "chars": chars})
        doc["divs"].append(d)
    return doc


# ------------------------------------------------------------------ SAMI

class _SamiHTML(HTMLParser):
    def __init__(self):
        super().__init__(convert_charrefs=True)
        self.syncs = []       # [{start(str), ps:[{attrs, lines, chars}]}]
        self.style_text = ""
        self._in_style = False
        self._p = None
        self._stack = []      # open inline elements inside the current p
        self.errors = []
        self.seen = []

    def handle_starttag(self, tag, attrs):
        a = dict(attrs)
        self.seen.append(tag)
        if tag == "style":
            self._in_style = True
        elif tag == "sync":
            self._close_p()
            self.syncs.append({"start": a.get("start"), "attrs": a, "ps": []})
        elif tag == "p":
            self._close_p()
            if not self.syncs:
                self.errors.append("<p> outside <sync>")
                self.syncs.append({"start": None, "attrs": {}, "ps": []})
            self._p = {"attrs": a, "lines": [""], "chars": []}
            self._stack = []
        elif tag == "br":
            if self._p is not None:
                self._p["lines"].append("")
                self._p["chars"].append(("\n", tuple(self._stack)))
        elif self._p is not None:
            self._stack.append((tag, tuple(sorted(a.items()))))

    def handle_startendtag(self, tag, attrs):
        if tag == "br":
            self.handle_starttag(tag, attrs)
        else:
            self.handle_starttag(tag, attrs)
            self.handle_endtag(tag)

    def handle_endtag(self, tag):
        if tag == "style":
            self._in_style = False
        elif tag in ("p", "sync", "body", "sami"):
            if tag == "p" and self._p is not None and self._stack:
                self.errors.append(f"</p> with open inline elements {[t for t, _ in self._stack]}")
            self._close_p()
        elif self._p is not None:
            if not self._stack or self._stack[-1][0] != tag:
                self.errors.append(f"closing </{tag}> does not match open elements "
                                   f"{[t for t, _ in self._stack]}")
                for k in range(len(self._stack) - 1, -1, -1):
                    if self._stack[k][0] == tag:
                        del self._stack[k:]
                        break
            else:
                self._stack.pop()

    def _close_p(self):
        if self._p is not None:
            self.syncs[-1]["ps"].append(self._p)
            self._p = None
            self._stack = []

    def handle_data(self, data):
        if self._in_style:
            self.style_text += data
        elif self._p is not None:
            self._p["lines"][-1] += data
            for ch in data:
                self._p["chars"].append((ch, tuple(self._stack)))

    def handle_comment(self, data):
        if self._in_style:
            self.style_text += data


def parse_sami(text):
    """{syncs: [{start, ps:[{attrs, lines, chars}]}], classes: {class: {prop: value}}, errors}"""
    p = _SamiHTML()
    p.feed(text)
    p.close()
    p._close_p()
    if "sami" not in p.seen:
        raise RefParseError("no <sami> element")
    classes = {}
    class_rules = {}
    for m in re.finditer(r"([.#]?[\w-]+)\s*\{([^}]*)\}", p.style_text):
        props = {}
        for decl in m.group(2).split(";"):
            if ":" in decl:
                k, v = decl.split(":", 1)
                props[k.strip().lower()] = v.strip()
        classes[m.group(1).lstrip(".#").lower()] = props
        if m.group(1).startswith("."):
            class_rules[m.group(1)[1:].lower()] = props      # rules with a class selector only
    return {"syncs": p.syncs, "classes": classes, "class_rules": class_rules, "errors": p.errors}
