"""Pristine fork server.

`python -m vf.zygote` imports pycaption and then serves one JSON request per line on stdin:
for each it fork()s, the child performs exactly that one operation (vf.ops.execute) and the
result is printed as one JSON line.  Every answer therefore comes from "a process in which
nothing was read or written before", under the PYTHONHASHSEED / PYCAPTION_DEFAULT_LANG this
server was started with.
"""
import atexit
import json
import os
import subprocess
import sys

from . import REPO, VERIF_DIR


def serve():
    from . import ops
    out = sys.stdout
    for line in sys.stdin:
        line = line.strip()
        if not line:
            continue
        req = json.loads(line)
        r, w = os.pipe()
        pid = os.fork()
        if pid == 0:
            os.close(r)
            try:
                res = ops.execute(req)
                data = json.dumps(res).encode()
            except BaseException as e:  # noqa
                data = json.dumps({"err": ["ChildCrash", repr(e)[:200]]}).encode()
            with os.fdopen(w, "wb") as f:
                f.write(data)
            os._exit(0)
        os.close(w)
        with os.fdopen(r, "rb") as f:
            data = f.read()
        os.waitpid(pid, 0)
        out.write((data.decode() or json.dumps({"err": ["ChildCrash", "no output"]})) + "\n")
        out.flush()


class Zygote:
    def __init__(self, hashseed=0, default_lang=None):
        env = dict(os.environ)
        env["PYTHONHASHSEED"] = str(hashseed)
        env["VERIF_REPO"] = REPO
        env["PYTHONWARNINGS"] = "ignore"
        env["PYTHONDONTWRITEBYTECODE"] = "1"
        if default_lang is not None:
            env["PYCAPTION_DEFAULT_LANG"] = default_lang
        else:
            env.pop("PYCAPTION_DEFAULT_LANG", None)
        self.proc = subprocess.Popen([sys.executable, "-m", "vf.zygote"], cwd=VERIF_DIR, env=env,
                                     stdin=subprocess.PIPE, stdout=subprocess.PIPE,
                                     stderr=subprocess.DEVNULL, text=True, bufsize=1)
        self.hashseed = hashseed
        atexit.register(self.close)

    def request(self, req):
        self.proc.stdin.write(json.dumps(req) + "\n")
        self.proc.stdin.flush()
        line = self.proc.stdout.readline()
        if not line:
            raise RuntimeError("zygote died")
        return json.loads(line)

    def close(self):
        try:
            if self.proc.poll() is None:
                self.proc.stdin.close()
                self.proc.wait(timeout=5)
        except Exception:  # noqa
            try:
                self.proc.kill()
            except Exception:  # noqa
                pass


_POOL = {}


def get(hashseed=0, default_lang=None):
    """Per-process cache of zygotes (each runner worker owns its own servers)."""
    key = (os.getpid(), hashseed, default_lang)
    z = _POOL.get(key)
    if z is None or z.proc.poll() is not None:
        z = Zygote(hashseed, default_lang)
        _POOL[key] = z
    return z


if __name__ == "__main__":
    serve()
