"""Documents shipped with the repository (examples/ and the string fixtures of tests/)."""
import importlib
import inspect
import os
import sys

from . import REPO

_CACHE = None


def documents():
    """[(name, text)] sorted by name; every string fixture that needs no arguments."""
    global _CACHE
    if _CACHE is not None:
        return _CACHE
    docs = []
    exdir = os.path.join(REPO, "examples")
    for fn in sorted(os.listdir(exdir)):
        with open(os.path.join(exdir, fn), encoding="utf-8") as f:
            docs.append(("examples/" + fn, f.read()))
    if REPO not in sys.path:
        sys.path.insert(0, REPO)
    for mod in ("dfxp", "sami", "scc", "srt", "webvtt", "microdvd", "translated_scc"):
        try:
            m = importlib.import_module("tests.fixtures." + mod)
        except Exception:  # noqa
            continue
        for name, obj in sorted(vars(m).items()):
            w = getattr(obj, "__wrapped__", None)
            if w is None:
                continue
            try:
                if inspect.signature(w).parameters:
                    continue
                v = w()
            except Exception:  # noqa
                continue
            if isinstance(v, str) and v.strip():
                docs.append((f"tests/fixtures/{mod}.py::{name}", v))
    _CACHE = docs
    return docs


def read_all():
    """[(name, reader class name, CaptionSet)] for every document some reader accepts."""
    import pycaption
    out = []
    for name, text in documents():
        try:
            cls = pycaption.detect_format(text)
            if cls is None:
                continue
            out.append((name, cls.__name__, cls().read(text)))
        except Exception:  # noqa
            continue
    return out
