"""Hypothesis strategies shared by the property modules.

Everything produced is a JSON value (see vf.model).  All randomness comes
from Hypothesis.
"""
from hypothesis import strategies as st

US = 1
MS = 1000
SEC = 10 ** 6
MIN = 60 * SEC
HOUR = 3600 * SEC
DAY = 24 * HOUR


def instants(max_us=DAY, min_us=0):
    """Boundary-biased integer microsecond instants in [min_us, max_us)."""
    def clamp(x):
        return min(max(x, min_us), max_us - 1)
    units = st.sampled_from([US, MS, 10 * MS, SEC, MIN, HOUR])
    deltas = st.sampled_from([-1000, -999, -1, 0, 0, 1, 999, 1000])

    @st.composite
    def boundary(draw):
        u = draw(units)
        k = draw(st.integers(0, max(1, (max_us // u))))
        if draw(st.booleans()):
            k = draw(st.sampled_from([0, 1, 9, 10, 59, 60, 61, 99, 100, 599, 600, 999, 1000,
                                      3599, 3600, 3601]))
        return clamp(k * u + draw(deltas))

    @st.composite
    def composed(draw):
        h = draw(st.integers(0, max(0, max_us // HOUR - 1)))
        m = draw(st.sampled_from([0, 1, 9, 10, 30, 59]))
        s = draw(st.sampled_from([0, 1, 9, 10, 30, 59]))
        f = draw(st.sampled_from([0, 1, 999, 1000, 1001, 500000, 999000, 999999]))
        return clamp(h * HOUR + m * MIN + s * SEC + f)

    return st.one_of(st.integers(min_us, max_us - 1), boundary(), composed(),
                     st.sampled_from([clamp(0), clamp(max_us - 1), clamp(max_us - 1000)]))


def sorted_spans(n_min=1, n_max=6, max_us=DAY, min_dur=0, allow_touch=True, distinct_starts=True,
                 min_gap=0):
    """n sorted, non-overlapping [start, end) spans; returns list of [start, end]."""
    @st.composite
    def build(draw):
        n = draw(st.integers(n_min, n_max))
        pts = draw(st.lists(instants(max_us), min_size=2 * n, max_size=2 * n))
        pts.sort()
        spans = []
        prev_end = None
        prev_start = None
        for i in range(n):
            a, b = pts[2 * i], pts[2 * i + 1]
            if prev_end is not None and a < prev_end + min_gap:
                a = prev_end + min_gap
            if distinct_starts and prev_start is not None and a <= prev_start:
                a = prev_start + 1
            if b < a + min_dur:
                b = a + min_dur
            if b >= max_us or a >= max_us:
                break
            spans.append([a, b])
            prev_end, prev_start = b, a
        if not spans:
            spans = [[0, max(min_dur, 1)]]
        return spans
    return build()


# ------------------------------------------------------------------ texts

META = [
    "&", "<", ">", '"', "'", "--", "->", "-->", "<--", "&amp;", "&lt;", "&gt;", "&#60;",
    "&#x3c;", "&nbsp;", "&apos;", "&quot;", "&copy", "&bogus;", "<b>", "</i>", "<i>", "<br/>",
    "<br>", "</p>", "<p>", "</span>", "<span>", "<v Bob>", "<c.x>", "<00:00:01.000>", "{1}{2}",
    "{y:i}", "]]>", "<![CDATA[", "<!--", "--&gt;", "00:00:01,000 --> 00:00:02,000", "NOTE", "12",
    "0", ";>", "<i/>", "&&", "<<", ">>", "&#", "&#;", "&;", "=", "/>", "</", "\\", "%", "{", "}",
    "<?xml", "?>", "&lt", "&amp", "</sync>", "<sync start=5>", "</body>", "</div>", "1",
]
META_PIPE = ["|", "||", "a|b"]
MARKERS = ["WEBVTT", "<sami", "<SAMI>", "</tt>", "</TT>", "Scenarist_SCC V1.0"]

# long texts: a run without any blank that is longer than a typical source / display line, and
# a long sentence of ordinary words
LONG = ["https://example.com/" + "path-segment/" * 11 + "index.html",
        "\u65e5\u672c\u8a9e\u306e\u5b57\u5e55" * 25,
        "x" * 130, "word " * 40 + "end", ("lorem ipsum dolor sit amet " * 6).strip(),
        "A" * 79 + " " + "B" * 81]

WORDS = ["a", "I", "Hello", "world", "café", "naïve", "αβγ", "中文",
         "日本語", "\U0001F600", "é", "¿qué?", "x1", "3.14", "don't",
         "rock'n'roll", "♪", "A&B", "1<2", "Mr.", "end.", "UPPER", "åäö"]

# "printable": str.isprintable() is true for every generated character, and the only
# space separator used is U+0020.
_PRINTABLE = st.characters(exclude_categories=["Cc", "Cf", "Cs", "Co", "Cn", "Zl", "Zp", "Zs"])


def _visible_word():
    return st.one_of(st.sampled_from(WORDS),
                     st.text(_PRINTABLE, min_size=1, max_size=6))


def lines(meta=True, pipe=True, markers=False, ascii_only=False, max_atoms=6, extra=()):
    """One caption line: 1..max_atoms atoms, at least one visible character, no newline.
    Returns a str without leading/trailing whitespace (inner spaces single)."""
    pools = []
    if ascii_only:
        pools.append(st.sampled_from(["a", "I", "Hello", "world", "x1", "3.14", "don't", "Mr.",
                                      "end.", "UPPER", "A&B", "1<2"]))
        pools.append(st.text(st.characters(min_codepoint=33, max_codepoint=126), min_size=1,
                             max_size=6))
    else:
        pools.append(_visible_word())
    pool_meta = list(META) if meta else []
    if pipe and meta:
        pool_meta += META_PIPE
    if markers:
        pool_meta += MARKERS
    pool_meta += list(extra)
    if ascii_only:
        pool_meta = [m for m in pool_meta if m.isascii()]
    if not pipe:
        pool_meta = [m for m in pool_meta if "|" not in m]
    if pool_meta:
        pools.append(st.sampled_from(pool_meta))
        pools.append(st.sampled_from(pool_meta))

    @st.composite
    def build(draw):
        n = draw(st.integers(1, max_atoms))
        atoms = draw(st.lists(st.one_of(*pools), min_size=n, max_size=n))
        seps = draw(st.lists(st.sampled_from(["", " ", " "]), min_size=n, max_size=n))
        s = "".join(a + b for a, b in zip(atoms, seps)).strip()
        if not pipe:
            s = s.replace("|", "/")
        if not s:
            s = "x"
        return " ".join(s.split(" ")) if "  " in s else s
    return build()


def has_meta(s):
    return any(ch in s for ch in "&<>\"'|{}\\") or "--" in s


def text_cue_nodes(line_strategy, min_lines=1, max_lines=4, empty_lines=True, split_nodes=False,
                   empty_kinds=("br",), split_anywhere=False, edge_breaks=False):
    """Nodes (TEXT/BREAK only) of one cue.  Returns {"nodes": [...], "lines": [...],
    "multi": bool, "empties": bool} where lines are the authored visible lines."""
    @st.composite
    def build(draw):
        n = draw(st.integers(min_lines, max_lines))
        ls = draw(st.lists(line_strategy, min_size=n, max_size=n))
        nodes = []
        multi = False
        empties = False
        for i, ln in enumerate(ls):
            if i:
                nodes.append({"br": 1})
                if empty_lines and draw(st.integers(0, 5)) == 0:
                    kind = draw(st.sampled_from(list(empty_kinds)))
                    if kind == "blank":
                        # a line holding nothing but a text node of blanks / a tab
                        nodes.append({"t": draw(st.sampled_from([" ", "  ", "\t"]))})
                    if kind == "style":
                        # a line that holds nothing but an (empty) span of a style most formats
                        # cannot express
                        c = draw(st.sampled_from([{"color": "red"}, {"font-size": "1c"}, {"color": "#fff"}]))
                        nodes.append({"s": True, "c": c})
                        nodes.append({"s": False, "c": c})
                    nodes.append({"br": 1})
                    empties = True
            if split_nodes and " " in ln and draw(st.integers(0, 4)) == 0:
                k = ln.index(" ")
                nodes.append({"t": ln[:k]})
                nodes.append({"t": ln[k + 1:]})
                multi = True
            elif split_anywhere and len(ln) >= 2 and draw(st.integers(0, 3)) == 0:
                # adjacent text nodes cut at any character (also inside a delimiter)
                cuts = sorted(set(draw(st.lists(st.integers(1, len(ln) - 1), min_size=1, max_size=2))))
                prev = 0
                for k in cuts + [len(ln)]:
                    nodes.append({"t": ln[prev:k]})
                    prev = k
                multi = True
            else:
                nodes.append({"t": ln})
        if edge_breaks and draw(st.integers(0, 5)) == 0:
            # a caption may begin or end with line breaks (readers return them for <br/> at the
            # edges of a paragraph)
            where = draw(st.sampled_from(["tail", "tail", "head", "both"]))
            k = draw(st.integers(1, 2))
            if where in ("head", "both"):
                nodes = [{"br": 1}] * k + nodes
            if where in ("tail", "both"):
                nodes = nodes + [{"br": 1}] * k
            empties = True
        return {"nodes": nodes, "lines": ls, "multi": multi, "empties": empties}
    return build()


def simple_set(line_strategy, n_min=1, n_max=4, max_us=DAY, min_dur=0, lang="en-US",
               empty_lines=True, split_nodes=False, min_gap=0, max_lines=4, empty_kinds=("br",),
               split_anywhere=False, edge_breaks=False):
    """Single-language set of TEXT/BREAK cues with distinct increasing times."""
    @st.composite
    def build(draw):
        spans = draw(sorted_spans(n_min, n_max, max_us, min_dur=min_dur, min_gap=min_gap))
        cues = []
        for a, b in spans:
            body = draw(text_cue_nodes(line_strategy, 1, max_lines, empty_lines, split_nodes, empty_kinds,
                                       split_anywhere, edge_breaks))
            cues.append({"start": a, "end": b, "nodes": body["nodes"], "style": {},
                         "layout": None, "lines": body["lines"], "multi": body["multi"],
                         "empties": body["empties"]})
        return {"langs": [{"code": lang, "layout": None, "cues": cues}], "styles": {},
                "layout": None}
    return build()
